//! Register values and construction of source trees from their JSON
//! description (the same description the TLA+ trace specification reads).

use std::sync::Arc;

use rspack_sources::{
  BoxSource, CachedSource, ConcatSource, OriginalSource, RawBufferSource,
  RawSource, RawStringSource, ReplaceSource, ReplacementEnforce, Source,
  SourceExt, SourceMap, SourceMapSource, SourceMapSourceOptions,
};
use serde_json::Value;

use crate::custom::{DefaultSource, ScriptEv, ScriptSource, YieldSource};

#[derive(Clone)]
pub enum Val {
  Raw(RawSource),
  RawStr(RawStringSource),
  RawBuf(RawBufferSource),
  Orig(OriginalSource),
  Sms(SourceMapSource),
  Concat(ConcatSource),
  Replace(ReplaceSource<BoxSource>),
  Cached(CachedSource<BoxSource>),
  Boxed(BoxSource),
  Default(DefaultSource),
  Script(ScriptSource),
  Yield(YieldSource),
}

impl Val {
  pub fn as_source(&self) -> &(dyn Source + 'static) {
    match self {
      Val::Raw(s) => s,
      Val::RawStr(s) => s,
      Val::RawBuf(s) => s,
      Val::Orig(s) => s,
      Val::Sms(s) => s,
      Val::Concat(s) => s,
      Val::Replace(s) => s,
      Val::Cached(s) => s,
      Val::Boxed(s) => s,
      Val::Default(s) => s,
      Val::Script(s) => s,
      Val::Yield(s) => s,
    }
  }

  /// Move the value behind an `Arc<dyn Source>`.
  pub fn into_box(self) -> BoxSource {
    match self {
      Val::Raw(s) => s.boxed(),
      Val::RawStr(s) => s.boxed(),
      Val::RawBuf(s) => s.boxed(),
      Val::Orig(s) => s.boxed(),
      Val::Sms(s) => s.boxed(),
      Val::Concat(s) => s.boxed(),
      Val::Replace(s) => s.boxed(),
      Val::Cached(s) => s.boxed(),
      Val::Boxed(s) => s,
      Val::Default(s) => s.boxed(),
      Val::Script(s) => s.boxed(),
      Val::Yield(s) => s.boxed(),
    }
  }
}

pub fn bytes_of(v: &Value) -> Vec<u8> {
  v.as_array()
    .map(|a| a.iter().map(|x| x.as_u64().unwrap_or(0) as u8).collect())
    .unwrap_or_default()
}

pub fn string_of(v: &Value) -> String {
  // texts travel as byte arrays; names as JSON strings
  match v {
    Value::String(s) => s.clone(),
    _ => String::from_utf8(bytes_of(v)).expect("program text is not UTF-8"),
  }
}

/// `[]` = absent, `[x]` = present
pub fn opt<'v>(v: &'v Value) -> Option<&'v Value> {
  v.as_array().and_then(|a| a.first())
}

pub fn source_map_of(m: &Value) -> SourceMap {
  let strings = |v: &Value| -> Vec<String> {
    v.as_array()
      .map(|a| a.iter().map(string_of).collect())
      .unwrap_or_default()
  };
  // a value is a value, whichever way it was put together: `new` with all
  // tables, or `new` with the mappings only and the setters for the rest
  let mut map = if m["via"].as_str() == Some("setters") {
    let mut map = SourceMap::new(
      string_of(&m["m"]),
      Vec::<String>::new(),
      Vec::<String>::new(),
      Vec::<String>::new(),
    );
    map.set_sources(strings(&m["sources"]));
    map.set_sources_content(strings(&m["contents"]));
    map.set_names(strings(&m["names"]));
    map
  } else {
    SourceMap::new(
      string_of(&m["m"]),
      strings(&m["sources"]),
      strings(&m["contents"]),
      strings(&m["names"]),
    )
  };
  if let Some(root) = opt(&m["root"]) {
    map.set_source_root(Some(string_of(root)));
  }
  if let Some(file) = opt(&m["file"]) {
    map.set_file(Some(string_of(file)));
  }
  if let Some(dbg) = opt(&m["dbg"]) {
    map.set_debug_id(Some(string_of(dbg)));
  }
  map
}

pub fn enforce_of(v: &Value) -> ReplacementEnforce {
  match v.as_i64().unwrap_or(1) {
    0 => ReplacementEnforce::Pre,
    2 => ReplacementEnforce::Post,
    _ => ReplacementEnforce::Normal,
  }
}

pub fn apply_replacement(src: &mut ReplaceSource<BoxSource>, r: &Value) {
  let s = r["s"].as_u64().unwrap() as u32;
  let e = r["e"].as_u64().unwrap() as u32;
  let content = string_of(&r["c"]);
  let name = opt(&r["n"]).map(string_of);
  let name = name.as_deref();
  match r["api"].as_str().unwrap_or("replace_enf") {
    "insert" => src.insert(s, &content, name),
    "insert_enf" => {
      src.insert_with_enforce(s, &content, name, enforce_of(&r["enf"]))
    }
    "replace" => src.replace(s, e, &content, name),
    _ => src.replace_with_enforce(s, e, &content, name, enforce_of(&r["enf"])),
  }
}

fn script_events(v: &Value) -> Vec<ScriptEv> {
  v.as_array()
    .map(|a| {
      a.iter()
        .map(|e| match e["t"].as_str().unwrap() {
          "S" => ScriptEv::Source(
            e["i"].as_u64().unwrap() as u32,
            string_of(&e["name"]),
            opt(&e["c"]).map(string_of),
          ),
          "N" => ScriptEv::Name(
            e["i"].as_u64().unwrap() as u32,
            string_of(&e["name"]),
          ),
          _ => {
            let o = e["o"].as_array().filter(|o| o.len() == 4).map(|o| {
              (
                o[0].as_u64().unwrap() as u32,
                o[1].as_u64().unwrap() as u32,
                o[2].as_u64().unwrap() as u32,
                o[3].as_i64().filter(|n| *n >= 0).map(|n| n as u32),
              )
            });
            ScriptEv::Chunk(
              opt(&e["x"]).map(string_of).unwrap_or_default(),
              e["gl"].as_u64().unwrap() as u32,
              e["gc"].as_u64().unwrap() as u32,
              o,
            )
          }
        })
        .collect()
    })
    .unwrap_or_default()
}

pub fn build(t: &Value, regs: &[Option<Val>]) -> Val {
  match t["k"].as_str().expect("tree without kind") {
    "raw" => {
      let b = bytes_of(&t["b"]);
      if t["st"].as_bool().unwrap_or(false)
        && matches!(t["sub"].as_str(), Some("str") | Some("rawstr"))
      {
        // `from_static`: the text is leaked for the life of the child process
        let s: &'static str =
          Box::leak(String::from_utf8(b).expect("static raw not UTF-8").into_boxed_str());
        return match t["sub"].as_str().unwrap_or("str") {
          "rawstr" => Val::RawStr(RawStringSource::from_static(s)),
          _ => Val::Raw(RawSource::from_static(s)),
        };
      }
      match t["sub"].as_str().unwrap_or("str") {
        "str" => Val::Raw(RawSource::from(
          String::from_utf8(b).expect("raw str not UTF-8"),
        )),
        "buf" => Val::Raw(RawSource::from(b)),
        "rawstr" => Val::RawStr(RawStringSource::from(
          String::from_utf8(b).expect("rawstr not UTF-8"),
        )),
        _ => Val::RawBuf(RawBufferSource::from(b)),
      }
    }
    "orig" => Val::Orig(OriginalSource::new(
      string_of(&t["b"]),
      string_of(&t["name"]),
    )),
    "sms" => Val::Sms(SourceMapSource::new(SourceMapSourceOptions {
      value: string_of(&t["b"]),
      name: string_of(&t["name"]),
      source_map: source_map_of(&t["map"]),
      original_source: opt(&t["osrc"]).map(string_of),
      inner_source_map: opt(&t["inner"]).map(source_map_of),
      remove_original_source: t["remove"].as_bool().unwrap_or(false),
    })),
    "default" => Val::Default(DefaultSource {
      text: string_of(&t["b"]),
      map: opt(&t["map"]).map(source_map_of),
    }),
    "script" => Val::Script(ScriptSource {
      text: string_of(&t["b"]),
      events: script_events(&t["ev"]),
      end: (
        t["end"][0].as_u64().unwrap() as u32,
        t["end"][1].as_u64().unwrap() as u32,
      ),
    }),
    "yield" => Val::Yield(YieldSource {
      text: string_of(&t["b"]),
    }),
    "concat" => {
      let children: Vec<Val> = t["ch"]
        .as_array()
        .map(|a| a.iter().map(|c| build(c, regs)).collect())
        .unwrap_or_default();
      let typed = t["mode"].as_str() == Some("typed")
        && children.iter().all(|c| matches!(c, Val::Concat(_)));
      let mut concat = if typed {
        ConcatSource::new(children.into_iter().map(|c| match c {
          Val::Concat(c) => c,
          _ => unreachable!(),
        }))
      } else {
        ConcatSource::new(children.into_iter().map(Val::into_box))
      };
      if let Some(adds) = t["adds"].as_array() {
        for a in adds {
          add_child(&mut concat, build(a, regs));
        }
      }
      Val::Concat(concat)
    }
    "replace" => {
      let inner = build(&t["inner"], regs).into_box();
      let mut src = ReplaceSource::new(inner);
      if let Some(repls) = t["repls"].as_array() {
        for r in repls {
          apply_replacement(&mut src, r);
        }
      }
      Val::Replace(src)
    }
    "cached" => Val::Cached(CachedSource::new(build(&t["inner"], regs).into_box())),
    "box" => match build(&t["inner"], regs) {
      Val::Boxed(b) => Val::Boxed(Arc::new(b)),
      other => Val::Boxed(other.into_box()),
    },
    "reg" => {
      let r = t["r"].as_u64().unwrap() as usize;
      regs[r].clone().expect("empty register")
    }
    other => panic!("unknown tree kind {other}"),
  }
}

/// `ConcatSource::add` with the static type the value really has, so that a
/// typed ConcatSource is flattened and everything else is pushed.
pub fn add_child(concat: &mut ConcatSource, child: Val) {
  match child {
    Val::Concat(c) => concat.add(c),
    Val::Raw(s) => concat.add(s),
    Val::RawStr(s) => concat.add(s),
    Val::RawBuf(s) => concat.add(s),
    Val::Orig(s) => concat.add(s),
    Val::Sms(s) => concat.add(s),
    Val::Replace(s) => concat.add(s),
    Val::Cached(s) => concat.add(s),
    Val::Boxed(s) => concat.add(s),
    Val::Default(s) => concat.add(s),
    Val::Script(s) => concat.add(s),
    Val::Yield(s) => concat.add(s),
  }
}
