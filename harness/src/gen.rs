//! Seeded random program generators (beyond the exhaustive TLC scopes).
//! These only choose inputs; what the answers must be is decided by TLC.

use std::{collections::HashMap, io::Write};

use rand::{rngs::StdRng, Rng, SeedableRng};
use serde_json::{json, Value};

use crate::{build::build, exec::bytes_json};

const B64: &[u8] =
  b"ABCDEFGHIJKLMNOPQRSTUVWXYZabcdefghijklmnopqrstuvwxyz0123456789+/";

fn vlq(out: &mut Vec<u8>, delta: i64) {
  let mut num: u64 = if delta < 0 {
    ((-delta as u64) << 1) | 1
  } else {
    (delta as u64) << 1
  };
  loop {
    let mut d = num & 31;
    num >>= 5;
    if num > 0 {
      d |= 32;
    }
    out.push(B64[d as usize]);
    if num == 0 {
      break;
    }
  }
}

/// (gl, gc, si, ol, oc, ni); si < 0 = one-field segment, ni < 0 = no name
pub type Seg = (i64, i64, i64, i64, i64, i64);

pub fn encode_segs(segs: &[Seg]) -> Vec<u8> {
  let mut out = Vec::new();
  let (mut line, mut gc, mut si, mut ol, mut oc, mut ni) = (1i64, 0i64, 0i64, 1i64, 0i64, 0i64);
  let mut first = true;
  for s in segs {
    if s.0 > line {
      for _ in 0..(s.0 - line) {
        out.push(b';');
      }
      line = s.0;
      gc = 0;
    } else if !first {
      out.push(b',');
    }
    first = false;
    vlq(&mut out, s.1 - gc);
    gc = s.1;
    if s.2 >= 0 {
      vlq(&mut out, s.2 - si);
      si = s.2;
      vlq(&mut out, s.3 - ol);
      ol = s.3;
      vlq(&mut out, s.4 - oc);
      oc = s.4;
      if s.5 >= 0 {
        vlq(&mut out, s.5 - ni);
        ni = s.5;
      }
    }
  }
  out
}

#[derive(Clone)]
pub struct Cfg {
  pub multibyte: bool,
  pub wild_maps: bool,
  pub binary: bool,
  pub sms: bool,
  pub inner_maps: bool,
  pub cached: bool,
  pub cached_under_replace: bool,
  pub replace: bool,
  pub custom: bool,
  pub depth: u32,
  pub max_children: usize,
  pub max_repls: usize,
  pub max_text: usize,
  pub repl_names: bool,
  /// C01 only: segments whose columns go backwards within a line
  pub unsorted_maps: bool,
}

impl Cfg {
  pub fn ascii() -> Self {
    Cfg {
      multibyte: false,
      wild_maps: false,
      binary: false,
      sms: true,
      inner_maps: false,
      cached: true,
      cached_under_replace: true,
      replace: true,
      custom: false,
      depth: 3,
      max_children: 3,
      max_repls: 4,
      max_text: 24,
      repl_names: true,
      unsorted_maps: false,
    }
  }
  pub fn any() -> Self {
    Cfg {
      multibyte: true,
      wild_maps: true,
      binary: true,
      ..Cfg::ascii()
    }
  }
}

pub const FILES: [&str; 3] = ["a.js", "b.js", "c.js"];
pub const CONTENTS: [&str; 3] =
  ["aa;bb\ncc {d}\n", "x = 1;\ny = 2;", "abc def\n\nghi;"];
pub const NAMES: [&str; 3] = ["n0", "n1", "abc"];

pub struct Gen {
  pub rng: StdRng,
  pub cfg: Cfg,
  orig_names: HashMap<Vec<u8>, usize>,
  /// per program: does file i carry content?
  pub with_content: [bool; 3],
  next_cid: u64,
}

fn name_json(s: &str) -> Value {
  bytes_json(s.as_bytes())
}

impl Gen {
  pub fn new(seed: u64, cfg: Cfg) -> Self {
    Gen {
      rng: StdRng::seed_from_u64(seed),
      cfg,
      orig_names: HashMap::new(),
      with_content: [true; 3],
      next_cid: 0,
    }
  }

  pub fn reset_program(&mut self) {
    self.orig_names.clear();
    self.next_cid = 0;
    for i in 0..3 {
      self.with_content[i] = self.rng.gen_bool(0.75);
    }
  }

  fn pick<T: Copy>(&mut self, xs: &[T]) -> T {
    xs[self.rng.gen_range(0..xs.len())]
  }

  pub fn text(&mut self, max: usize) -> String {
    let n = match self.rng.gen_range(0..10) {
      0 => 0,
      1..=3 => self.rng.gen_range(0..=3.min(max)),
      _ => self.rng.gen_range(0..=max),
    };
    let mut s = String::new();
    while s.len() < n {
      let c = match self.rng.gen_range(0..24) {
        0..=5 => 'a',
        6..=7 => 'b',
        8..=10 => ';',
        11 => '{',
        12 => '}',
        13..=15 => ' ',
        16..=19 => '\n',
        20 => '\r',
        21 => '\t',
        _ => {
          if self.cfg.multibyte {
            self.pick(&['é', '€', '😀', 'a'])
          } else {
            'a'
          }
        }
      };
      s.push(c);
    }
    s
  }

  fn orig_name(&mut self, text: &str) -> String {
    let n = self.orig_names.len();
    let k = *self.orig_names.entry(text.as_bytes().to_vec()).or_insert(n);
    format!("o{k}.js")
  }

  pub fn lines_of(text: &str) -> Vec<&str> {
    let mut v = vec![];
    let mut rest = text;
    while !rest.is_empty() {
      match rest.find('\n') {
        Some(p) => {
          v.push(&rest[..=p]);
          rest = &rest[p + 1..];
        }
        None => {
          v.push(rest);
          rest = "";
        }
      }
    }
    v
  }

  /// sorted segments; inside `text` unless wild
  pub fn segs_for(&mut self, text: &str, ns: usize, nn: usize, wild: bool) -> Vec<Seg> {
    let lines = Self::lines_of(text);
    let mut segs: Vec<Seg> = vec![];
    let nlines = lines.len() + if wild { 2 } else { 0 };
    for li in 0..nlines {
      if self.rng.gen_bool(0.3) {
        continue;
      }
      let len = if li < lines.len() {
        lines[li].chars().count()
      } else {
        3
      };
      let maxc = if wild { len + 3 } else { len };
      if maxc == 0 {
        continue;
      }
      let k = self.rng.gen_range(1..=3);
      let mut cols: Vec<usize> =
        (0..k).map(|_| self.rng.gen_range(0..maxc)).collect();
      cols.sort();
      if !wild || self.rng.gen_bool(0.8) {
        cols.dedup();
      }
      if self.cfg.unsorted_maps && cols.len() > 1 && self.rng.gen_bool(0.5) {
        cols.reverse();
      }
      for c in cols {
        if self.rng.gen_bool(0.15) {
          segs.push(((li + 1) as i64, c as i64, -1, 0, 0, -1));
        } else {
          let si = if wild && self.rng.gen_bool(0.1) {
            ns as i64 + self.rng.gen_range(0..2)
          } else {
            self.rng.gen_range(0..ns.max(1)) as i64
          };
          let ol = if wild && self.rng.gen_bool(0.1) {
            0
          } else {
            self.rng.gen_range(1..=4)
          };
          let oc = self.rng.gen_range(0..=7);
          let ni = if nn > 0 && self.rng.gen_bool(0.35) {
            if wild && self.rng.gen_bool(0.1) {
              nn as i64 + 1
            } else {
              self.rng.gen_range(0..nn) as i64
            }
          } else if wild && nn == 0 && self.rng.gen_bool(0.05) {
            0
          } else {
            -1
          };
          segs.push(((li + 1) as i64, c as i64, si, ol, oc, ni));
        }
      }
      // the extremes of the 32-bit fields (still sorted: the huge column is
      // the last one of its line)
      if wild && self.rng.gen_bool(0.12) {
        let big = |g: &mut Self| -> i64 {
          g.pick(&[u32::MAX as i64, u32::MAX as i64 - 1, 1i64 << 31, (1i64 << 31) - 1, 65_536])
        };
        let gc = if self.rng.gen_bool(0.5) { big(self) } else { maxc as i64 + 1 };
        let si = if self.rng.gen_bool(0.15) { big(self) } else { self.rng.gen_range(0..ns.max(1)) as i64 };
        let ol = if self.rng.gen_bool(0.5) { big(self) } else { 1 };
        let oc = if self.rng.gen_bool(0.3) { big(self) } else { 0 };
        let ni = if self.rng.gen_bool(0.1) { big(self) } else { -1 };
        segs.push(((li + 1) as i64, gc, si, ol, oc, ni));
      }
    }
    segs
  }

  pub fn map_json(&mut self, segs: &[Seg], ns: usize, nn: usize, first_file: usize) -> Value {
    let sources: Vec<Value> =
      (0..ns).map(|i| name_json(FILES[(first_file + i) % 3])).collect();
    let all_content =
      (0..ns).all(|i| self.with_content[(first_file + i) % 3]);
    let contents: Vec<Value> = if all_content {
      (0..ns)
        .map(|i| name_json(CONTENTS[(first_file + i) % 3]))
        .collect()
    } else {
      // a map either carries content for a file or not, consistently
      let mut v: Vec<Value> = vec![];
      for i in 0..ns {
        if self.with_content[(first_file + i) % 3] {
          while v.len() < i {
            v.push(name_json(""));
          }
          v.push(name_json(CONTENTS[(first_file + i) % 3]));
        }
      }
      v
    };
    let names: Vec<Value> = (0..nn).map(|i| name_json(NAMES[i % 3])).collect();
    let root: Vec<Value> = match self.rng.gen_range(0..10) {
      0 => vec![name_json("")],
      1 => vec![name_json("r")],
      2 => vec![name_json("r/")],
      _ => vec![],
    };
    json!({"m": bytes_json(&encode_segs(segs)), "sources": sources,
           "contents": contents, "names": names, "root": root,
           "file": [], "dbg": []})
  }

  /// An "identity-like" leaf: its text is the content of a pool file and
  /// its segments map positions to themselves.
  fn identity_sms(&mut self) -> Value {
    // only files that carry content in this program (a shared name has the
    // same content everywhere)
    let fi = match (0..3).filter(|i| self.with_content[*i]).nth(0) {
      Some(_) => loop {
        let i = self.rng.gen_range(0..3);
        if self.with_content[i] {
          break i;
        }
      },
      None => {
        self.with_content[0] = true;
        0
      }
    };
    let text = CONTENTS[fi];
    let mut segs: Vec<Seg> = vec![];
    for (li, line) in Self::lines_of(text).iter().enumerate() {
      let len = line.len();
      if len == 0 {
        continue;
      }
      let k = self.rng.gen_range(1..=3);
      let mut cols: Vec<usize> =
        (0..k).map(|_| self.rng.gen_range(0..len)).collect();
      cols.sort();
      cols.dedup();
      for c in cols {
        let ni = if self.rng.gen_bool(0.2) { self.rng.gen_range(0..2) } else { -1 };
        segs.push(((li + 1) as i64, c as i64, 0, (li + 1) as i64, c as i64, ni));
      }
    }
    let map = self.map_json(&segs, 1, 2, fi);
    json!({"k": "sms", "b": name_json(text), "name": name_json("gen.js"),
           "map": map, "inner": [], "osrc": [], "remove": false})
  }

  pub fn leaf(&mut self) -> Value {
    let kind = self.rng.gen_range(0..12);
    match kind {
      0..=2 => {
        let t = self.text(self.cfg.max_text);
        let sub = self.pick(&["str", "rawstr", "buf", "rawbuf"]);
        // the borrowed-static constructors
        if matches!(sub, "str" | "rawstr") && self.rng.gen_bool(0.2) {
          return json!({"k": "raw", "sub": sub, "b": name_json(&t), "st": true});
        }
        json!({"k": "raw", "sub": sub, "b": name_json(&t)})
      }
      3 if self.cfg.binary => {
        // invalid UTF-8 in a buffer
        let mut b = self.text(8).into_bytes();
        let junk: &[&[u8]] = &[
          &[0x80], &[0xC3], &[0xE2, 0x82], &[0xF0, 0x9F, 0x98], &[0xC0, 0xAF],
          &[0xED, 0xA0, 0x80], &[0xFF], &[0xF4, 0x90, 0x80, 0x80],
        ];
        let j = junk[self.rng.gen_range(0..junk.len())];
        let at = self.rng.gen_range(0..=b.len());
        // keep the insertion point on a char boundary of the valid part
        let at = (0..=at).rev().find(|i| std::str::from_utf8(&b[..*i]).is_ok()).unwrap_or(0);
        let tail = b.split_off(at);
        b.extend_from_slice(j);
        b.extend_from_slice(&tail);
        let sub = self.pick(&["buf", "rawbuf"]);
        json!({"k": "raw", "sub": sub, "b": bytes_json(&b)})
      }
      3..=7 => {
        let t = self.text(self.cfg.max_text);
        let name = self.orig_name(&t);
        json!({"k": "orig", "b": name_json(&t), "name": name_json(&name)})
      }
      _ if self.cfg.sms => {
        if self.rng.gen_bool(0.3) {
          return self.identity_sms();
        }
        let t = self.text(self.cfg.max_text);
        let ns = self.rng.gen_range(1..=3);
        let nn = self.rng.gen_range(0..=2);
        let wild = self.cfg.wild_maps && self.rng.gen_bool(0.4);
        let segs = self.segs_for(&t, ns, nn, wild);
        let first = self.rng.gen_range(0..3);
        let map = self.map_json(&segs, ns, nn, first);
        if self.cfg.custom && self.rng.gen_bool(0.3) {
          json!({"k": "default", "b": name_json(&t), "map": [map]})
        } else if self.cfg.inner_maps && self.rng.gen_bool(0.35) {
          // a combined map; the inner source is one of the outer sources
          // (or not), its text given, taken from the outer content, or absent
          let x = self.text(20);
          let ins = self.rng.gen_range(1..=2);
          let inn = self.rng.gen_range(0..=2);
          let iw = self.cfg.wild_maps && self.rng.gen_bool(0.5);
          let isegs = self.segs_for(&x, ins, inn, iw);
          let ifirst = self.rng.gen_range(0..3);
          let imap = self.map_json(&isegs, ins, inn, ifirst);
          let name = if self.rng.gen_bool(0.85) { FILES[first % 3] } else { "other.js" };
          let osrc: Vec<Value> = if self.rng.gen_bool(0.5) { vec![name_json(&x)] } else { vec![] };
          // wild outer maps: point segments into the inner source at places
          // its map covers, with name indices beyond the names table
          let mut map = map;
          if wild && self.rng.gen_bool(0.6) {
            let xl = Self::lines_of(&x);
            let mut osegs = segs.clone();
            for sg in osegs.iter_mut() {
              if sg.2 >= 0 && self.rng.gen_bool(0.7) {
                sg.2 = 0;
                if !xl.is_empty() {
                  let li = self.rng.gen_range(0..xl.len());
                  sg.3 = (li + 1) as i64;
                  sg.4 = self.rng.gen_range(0..xl[li].len().max(1)) as i64;
                }
                if self.rng.gen_bool(0.5) {
                  sg.5 = nn as i64 + self.rng.gen_range(0..2);
                }
              }
            }
            map["m"] = bytes_json(&encode_segs(&osegs));
          }
          json!({"k": "sms", "b": name_json(&t), "name": name_json(name),
                 "map": map, "inner": [imap], "osrc": osrc, "remove": self.rng.gen_bool(0.3)})
        } else {
          json!({"k": "sms", "b": name_json(&t), "name": name_json("gen.js"),
                 "map": map, "inner": [], "osrc": [], "remove": false})
        }
      }
      _ => {
        let t = self.text(self.cfg.max_text);
        let name = self.orig_name(&t);
        json!({"k": "orig", "b": name_json(&t), "name": name_json(&name)})
      }
    }
  }

  /// text of a tree, obtained by building it (only used to place
  /// replacements on character boundaries)
  fn text_of(tree: &Value) -> String {
    let regs: Vec<Option<crate::build::Val>> = vec![None; 16];
    build(tree, &regs).as_source().source().to_string()
  }

  pub fn replacement(&mut self, inner_text: &str) -> Value {
    let n = inner_text.len();
    let mut bounds: Vec<usize> =
      inner_text.char_indices().map(|(i, _)| i).collect();
    bounds.push(n);
    let pos = |g: &mut Gen| -> usize {
      if g.rng.gen_bool(0.12) {
        n + g.rng.gen_range(1..4)
      } else {
        bounds[g.rng.gen_range(0..bounds.len())]
      }
    };
    let a = pos(self);
    let b = if self.rng.gen_bool(0.3) { a } else { pos(self) };
    let (s, e) = if a <= b { (a, b) } else { (b, a) };
    let content = match self.rng.gen_range(0..8) {
      0..=1 => String::new(),
      2 => "\n".to_string(),
      3 => "x\n".to_string(),
      _ => self.text(5),
    };
    let name: Vec<Value> = if self.cfg.repl_names && self.rng.gen_bool(0.3) {
      vec![name_json(self.pick(&["rn", "n0", "n1"]))]
    } else {
      vec![]
    };
    let enf = self.rng.gen_range(0..3);
    let api = if s == e {
      self.pick(&["insert", "insert_enf", "replace", "replace_enf"])
    } else {
      self.pick(&["replace", "replace_enf"])
    };
    let enf = if api == "insert" || api == "replace" { 1 } else { enf };
    json!({"s": s, "e": e, "c": name_json(&content), "n": name, "enf": enf, "api": api})
  }

  pub fn tree(&mut self, depth: u32, under_replace: bool) -> Value {
    if depth == 0 || self.rng.gen_bool(0.25) {
      return self.leaf();
    }
    match self.rng.gen_range(0..10) {
      0..=3 => {
        let n = self.rng.gen_range(0..=self.cfg.max_children);
        let ch: Vec<Value> =
          (0..n).map(|_| self.tree(depth - 1, under_replace)).collect();
        let all_concat =
          !ch.is_empty() && ch.iter().all(|c| c["k"] == "concat");
        let mode = if all_concat && self.rng.gen_bool(0.5) { "typed" } else { "boxed" };
        let mut t = json!({"k": "concat", "mode": mode, "ch": ch});
        if self.rng.gen_bool(0.25) {
          let m = self.rng.gen_range(1..=2);
          let adds: Vec<Value> =
            (0..m).map(|_| self.tree(depth - 1, under_replace)).collect();
          t["adds"] = Value::Array(adds);
        }
        t
      }
      4..=6 if self.cfg.replace => {
        let inner = self.tree(depth - 1, true);
        let text = Self::text_of(&inner);
        let n = self.rng.gen_range(0..=self.cfg.max_repls);
        let repls: Vec<Value> =
          (0..n).map(|_| self.replacement(&text)).collect();
        json!({"k": "replace", "inner": inner, "repls": repls})
      }
      7..=8 if self.cfg.cached && (!under_replace || self.cfg.cached_under_replace) => {
        let inner = self.tree(depth - 1, under_replace);
        self.next_cid += 1;
        json!({"k": "cached", "cid": self.next_cid, "inner": inner})
      }
      9 => {
        let inner = self.tree(depth - 1, under_replace);
        json!({"k": "box", "inner": inner})
      }
      _ => self.leaf(),
    }
  }
}

fn obs(op: &str, r: u64) -> Value {
  json!({"op": op, "r": r})
}
fn stream(r: u64, columns: bool, fin: bool) -> Value {
  json!({"op": "stream", "r": r, "columns": columns, "final": fin})
}
fn map(r: u64, columns: bool) -> Value {
  json!({"op": "map", "r": r, "columns": columns})
}

/// paths (JSON pointers) of all nodes of a tree
fn node_paths(t: &Value, at: String, out: &mut Vec<String>) {
  out.push(at.clone());
  match t["k"].as_str() {
    Some("concat") => {
      for key in ["ch", "adds"] {
        if let Some(a) = t[key].as_array() {
          for (i, c) in a.iter().enumerate() {
            node_paths(c, format!("{at}/{key}/{i}"), out);
          }
        }
      }
    }
    Some("replace") | Some("cached") | Some("box") => node_paths(&t["inner"], format!("{at}/inner"), out),
    _ => {}
  }
}

fn bump_bytes(v: &mut Value, g: &mut Gen) {
  let mut b = crate::build::bytes_of(v);
  match g.rng.gen_range(0..3) {
    0 => b.push(b'x'),
    1 if !b.is_empty() => {
      b.pop();
    }
    _ => b.insert(0, b'y'),
  }
  // keep texts valid UTF-8
  if std::str::from_utf8(&b).is_err() {
    b = b"zz".to_vec();
  }
  *v = bytes_json(&b);
}

/// one random edit of one random node; returns false if nothing was changed
fn mutate(tree: &mut Value, g: &mut Gen) -> bool {
  let mut paths = vec![];
  node_paths(tree, String::new(), &mut paths);
  let path = paths[g.rng.gen_range(0..paths.len())].clone();
  let node = tree.pointer_mut(&path).unwrap();
  match node["k"].as_str().unwrap_or("") {
    "raw" => {
      if g.rng.gen_bool(0.7) {
        if node["sub"] == "buf" || node["sub"] == "rawbuf" {
          let mut b = crate::build::bytes_of(&node["b"]);
          b.push(b'x');
          node["b"] = bytes_json(&b);
        } else {
          bump_bytes(&mut node["b"], g);
        }
      } else {
        let valid = std::str::from_utf8(&crate::build::bytes_of(&node["b"])).is_ok();
        let subs: &[&str] = if valid { &["str", "buf", "rawstr", "rawbuf"] } else { &["buf", "rawbuf"] };
        let cur = node["sub"].as_str().unwrap_or("").to_string();
        let other: Vec<&&str> = subs.iter().filter(|x| **x != cur).collect();
        if other.is_empty() {
          return false;
        }
        node["sub"] = json!(**other[g.rng.gen_range(0..other.len())]);
      }
      true
    }
    "orig" => {
      if g.rng.gen_bool(0.6) {
        bump_bytes(&mut node["b"], g);
      } else {
        bump_bytes(&mut node["name"], g);
      }
      true
    }
    "sms" | "default" => {
      let has_inner = node["inner"].as_array().map(|a| !a.is_empty()).unwrap_or(false);
      let is_default = node["k"] == "default";
      match g.rng.gen_range(0..10) {
        0 => bump_bytes(&mut node["b"], g),
        8 if has_inner => {
          node["remove"] = json!(!node["remove"].as_bool().unwrap_or(false));
        }
        9 if has_inner => {
          let m = &mut node["inner"][0];
          bump_bytes(&mut m["sources"][0], g);
        }
        k => {
          let m = if is_default { &mut node["map"][0] } else { &mut node["map"] };
          if m.is_null() {
            return false;
          }
          match k % 7 {
            0 => {
              let mut mm = crate::build::bytes_of(&m["m"]);
              mm.extend_from_slice(b";AAAA");
              m["m"] = bytes_json(&mm);
            }
            1 => bump_bytes(&mut m["sources"][0], g),
            2 => {
              if m["contents"].as_array().map(|a| a.is_empty()).unwrap_or(true) {
                m["contents"] = json!([bytes_json(b"q")]);
              } else {
                bump_bytes(&mut m["contents"][0], g);
              }
            }
            3 => m["names"].as_array_mut().unwrap().push(bytes_json(b"extra")),
            4 => m["root"] = if m["root"].as_array().map(|a| a.is_empty()).unwrap_or(true) { json!([bytes_json(b"rt")]) } else { json!([]) },
            5 => m["file"] = if m["file"].as_array().map(|a| a.is_empty()).unwrap_or(true) { json!([bytes_json(b"f.js")]) } else { json!([]) },
            _ => m["dbg"] = if m["dbg"].as_array().map(|a| a.is_empty()).unwrap_or(true) { json!([bytes_json(b"id1")]) } else { json!([]) },
          }
        }
      }
      true
    }
    "concat" => {
      let ch = node["ch"].as_array_mut().unwrap();
      match g.rng.gen_range(0..3) {
        0 if !ch.is_empty() => {
          let i = g.rng.gen_range(0..ch.len());
          ch.remove(i);
        }
        1 if ch.len() >= 2 => ch.swap(0, 1),
        _ => ch.push(json!({"k": "raw", "sub": "str", "b": bytes_json(b"x")})),
      }
      true
    }
    "replace" => {
      let repls = node["repls"].as_array_mut().unwrap();
      if repls.is_empty() || g.rng.gen_bool(0.2) {
        repls.push(json!({"s": 0, "e": 0, "c": bytes_json(b"x"), "n": [], "enf": 1, "api": "replace_enf"}));
        return true;
      }
      let i = g.rng.gen_range(0..repls.len());
      let kind = g.rng.gen_range(0..6);
      if matches!(kind, 1 | 2) {
        // a range edit only means something to the range-taking calls
        let api = match repls[i]["api"].as_str() {
          Some("insert") => "replace",
          Some("insert_enf") => "replace_enf",
          Some(other) => other,
          None => "replace_enf",
        }
        .to_string();
        repls[i]["api"] = json!(api);
      }
      match kind {
        0 => {
          repls.remove(i);
        }
        1 => {
          let s = repls[i]["s"].as_u64().unwrap() + 1;
          let e = repls[i]["e"].as_u64().unwrap().max(s);
          repls[i]["s"] = json!(s);
          repls[i]["e"] = json!(e);
        }
        2 => repls[i]["e"] = json!(repls[i]["e"].as_u64().unwrap() + 1),
        3 => bump_bytes(&mut repls[i]["c"], g),
        4 => {
          repls[i]["n"] = if repls[i]["n"].as_array().map(|a| a.is_empty()).unwrap_or(true) {
            json!([bytes_json(b"nm")])
          } else {
            json!([])
          }
        }
        _ => {
          repls[i]["enf"] = json!((repls[i]["enf"].as_u64().unwrap_or(1) + 1) % 3);
          repls[i]["api"] = json!("replace_enf");
        }
      }
      true
    }
    _ => false,
  }
}

/// arbitrary strings for the mappings decoder
fn junk_steps(g: &mut Gen) -> Vec<Value> {
  let mut steps = vec![];
  for _ in 0..8 {
    let mut m: Vec<u8> = vec![];
    let n = g.rng.gen_range(0..40);
    for _ in 0..n {
      match g.rng.gen_range(0..12) {
        0..=4 => m.push(B64[g.rng.gen_range(0..64)]),
        5 => m.push(b','),
        6 => m.push(b';'),
        7 => {
          // a long run of continuation digits, maybe terminated
          let k = g.rng.gen_range(1..45);
          let d = B64[g.rng.gen_range(32..64)];
          for _ in 0..k {
            m.push(if g.rng.gen_bool(0.7) { d } else { b'/' });
          }
          if g.rng.gen_bool(0.7) {
            m.push(B64[g.rng.gen_range(0..32)]);
          }
        }
        8 => m.extend_from_slice(g.pick(&[&b" "[..], b"!", b"\n", b"\"", b"=", b"-", b"\\"])),
        9 => m.extend_from_slice("\u{e9}\u{20ac}".as_bytes()),
        10 => m.extend_from_slice(b"+/+/+/D"),
        _ => m.extend_from_slice(b"gggggggggggggggggggggggggA"),
      }
    }
    steps.push(json!({"op": "decode", "m": bytes_json(&m)}));
  }
  steps
}

/// a random rope program: piece table + two expression trees
fn rope_program(g: &mut Gen) -> Value {
  let np = g.rng.gen_range(2..7);
  let mut pieces: Vec<String> = vec![String::new()];
  for _ in 1..np {
    let n = g.rng.gen_range(0..5);
    let mut s = String::new();
    for _ in 0..n {
      s.push(g.pick(&['a', 'b', '\n', '\n', ' ', '\u{e9}', '\u{20ac}', '\u{1F600}', ';']));
    }
    pieces.push(s);
  }
  fn len_of(e: &Value, pieces: &[String]) -> usize {
    match e[0].as_str().unwrap() {
      "new" => 0,
      "from" => pieces[e[1].as_u64().unwrap() as usize].len(),
      "from_iter" => e[1].as_array().unwrap().iter().map(|p| pieces[p.as_u64().unwrap() as usize].len()).sum(),
      "add" => len_of(&e[1], pieces) + pieces[e[2].as_u64().unwrap() as usize].len(),
      "append" => len_of(&e[1], pieces) + len_of(&e[2], pieces),
      "slice" => (e[3].as_u64().unwrap() - e[2].as_u64().unwrap()) as usize,
      _ => 4,
    }
  }
  fn expr(g: &mut Gen, pieces: &[String], depth: u32) -> Value {
    let np = pieces.len() as u64;
    if depth == 0 || g.rng.gen_bool(0.3) {
      return match g.rng.gen_range(0..5) {
        0 => json!(["new"]),
        1 | 2 => json!(["from", g.rng.gen_range(0..np)]),
        _ => {
          let k = g.rng.gen_range(0..5);
          let ps: Vec<u64> = (0..k).map(|_| g.rng.gen_range(0..np)).collect();
          json!(["from_iter", ps])
        }
      };
    }
    match g.rng.gen_range(0..8) {
      0 | 1 => json!(["add", expr(g, pieces, depth - 1), g.rng.gen_range(0..np)]),
      2 | 3 | 4 => json!(["append", expr(g, pieces, depth - 1), expr(g, pieces, depth - 1)]),
      5 | 6 => {
        let e = expr(g, pieces, depth - 1);
        let n = len_of(&e, pieces) as u64;
        let a = g.rng.gen_range(0..=n + 1);
        let b = g.rng.gen_range(a..=n + 1);
        json!(["slice", e, a, b])
      }
      _ => json!(["line", expr(g, pieces, depth - 1), g.rng.gen_range(0..3)]),
    }
  }
  let a = expr(g, &pieces, 3);
  let b = if g.rng.gen_bool(0.2) { a.clone() } else { expr(g, &pieces, 2) };
  let pj: Vec<Value> = pieces.iter().map(|p| bytes_json(p.as_bytes())).collect();
  json!({"kind": "rope", "pieces": pj, "steps": [{"op": "rope_obs", "a": a, "b": b}]})
}

/// SourceMap values with arbitrary Unicode strings, and hand-built documents
fn json_steps(g: &mut Gen) -> Vec<Value> {
  let ustr = |g: &mut Gen| -> Value {
    let n = g.rng.gen_range(0..8);
    let mut s = String::new();
    for _ in 0..n {
      let c = match g.rng.gen_range(0..14) {
        0 => '"',
        1 => '\\',
        2 => char::from_u32(g.rng.gen_range(0..0x20)).unwrap(),
        3 => '\u{7f}',
        4 => '\u{2028}',
        5 => '\u{2029}',
        6 => '\u{1F600}',
        7 => '\u{e9}',
        8 => '/',
        9 => loop {
          if let Some(c) = char::from_u32(g.rng.gen_range(0..0x11_0000)) {
            break c;
          }
        },
        _ => (b'a' + g.rng.gen_range(0..26)) as char,
      };
      s.push(c);
    }
    bytes_json(s.as_bytes())
  };
  let strs = |g: &mut Gen| -> Vec<Value> { (0..g.rng.gen_range(0..4)).map(|_| ustr(g)).collect() };
  let opt = |g: &mut Gen| -> Vec<Value> { if g.rng.gen_bool(0.5) { vec![ustr(g)] } else { vec![] } };
  let contents: Vec<Value> = match g.rng.gen_range(0..4) {
    0 => vec![],
    1 => (0..g.rng.gen_range(1..3)).map(|_| bytes_json(b"")).collect(),
    _ => strs(g),
  };
  let mut m = json!({"m": ustr(g), "sources": strs(g), "contents": contents, "names": strs(g),
                     "root": opt(g), "file": opt(g), "dbg": opt(g)});
  if g.rng.gen_bool(0.4) {
    m["via"] = json!("setters");
  }
  let mut steps = vec![json!({"op": "to_json", "map": m})];
  // a document: random subset of keys in random order, null entries
  let entries = |g: &mut Gen| -> Vec<Value> {
    (0..g.rng.gen_range(0..4)).map(|_| if g.rng.gen_bool(0.3) { json!([]) } else { json!([ustr(g)]) }).collect()
  };
  let mut fields = vec![
    json!(["version", "num", 3]),
    json!(["sources", if g.rng.gen_bool(0.15) { "null" } else { "strs" }, entries(g)]),
    json!(["sourcesContent", if g.rng.gen_bool(0.15) { "null" } else { "strs" }, entries(g)]),
    json!(["names", if g.rng.gen_bool(0.15) { "null" } else { "strs" }, entries(g)]),
    json!(["mappings", if g.rng.gen_bool(0.08) { "null" } else { "str" }, ustr(g)]),
    json!(["file", if g.rng.gen_bool(0.2) { "null" } else { "str" }, ustr(g)]),
    json!(["sourceRoot", if g.rng.gen_bool(0.2) { "null" } else { "str" }, ustr(g)]),
    json!(["debugId", if g.rng.gen_bool(0.2) { "null" } else { "str" }, ustr(g)]),
    json!(["x_unknown", "strs", entries(g)]),
  ];
  // "null"-kind fields carry a dummy value
  for f in fields.iter_mut() {
    if f[1] == "null" {
      f[2] = json!(0);
    }
  }
  fields.retain(|_| g.rng.gen_bool(0.8));
  for i in (1..fields.len()).rev() {
    let j = g.rng.gen_range(0..=i);
    fields.swap(i, j);
  }
  steps.push(json!({"op": "parse_doc", "fields": fields}));
  steps
}

/// arbitrary bytes for the three JSON entry points
fn parser_steps(g: &mut Gen) -> Vec<Value> {
  let valid: &[&str] = &[
    r#"{"version":3,"sources":["a.js"],"names":["x"],"mappings":"AAAA","sourcesContent":["a"],"file":"o.js"}"#,
    r#"{"mappings":";"}"#,
    r#"{"version":3,"sources":[null,"b"],"sourcesContent":[null],"names":[null],"mappings":"","sourceRoot":"r","debugId":"d"}"#,
    r#"{"version":3,"mappings":"AAAA","x":{"y":[1,2,{"z":null}]},"sources":[]}"#,
  ];
  let mut steps = vec![];
  for _ in 0..6 {
    let mut b: Vec<u8> = match g.rng.gen_range(0..8) {
      0 => (0..g.rng.gen_range(0..40)).map(|_| g.rng.gen()).collect(),
      1 => {
        let d = g.rng.gen_range(1..3000);
        let mut v = vec![b'['; d];
        v.extend(vec![b']'; if g.rng.gen_bool(0.5) { d } else { d / 2 }]);
        v
      }
      2 => {
        let d = g.rng.gen_range(1..2000);
        let mut v = br#"{"mappings":"","x":"#.to_vec();
        v.extend(vec![b'['; d]);
        v.extend(vec![b']'; d]);
        v.push(b'}');
        v
      }
      3 => br#"{"version":1e999,"mappings":"A","sources":[1e400,-0,18446744073709551616]}"#.to_vec(),
      4 => br#"{"mappings":12}"#.to_vec(),
      _ => valid[g.rng.gen_range(0..valid.len())].as_bytes().to_vec(),
    };
    // mutate
    match g.rng.gen_range(0..6) {
      0 if !b.is_empty() => {
        let cut = g.rng.gen_range(0..b.len());
        b.truncate(cut);
      }
      1 if !b.is_empty() => {
        let i = g.rng.gen_range(0..b.len());
        b[i] = g.rng.gen();
      }
      2 => {
        let i = g.rng.gen_range(0..=b.len());
        b.insert(i, g.pick(&[b'"', b'\\', b'{', b'[', 0u8, 0xffu8, b',']));
      }
      _ => {}
    }
    let via = g.pick(&["json", "slice", "reader", "reader1", "reader7"]);
    steps.push(json!({"op": "parse", "via": via, "b": bytes_json(&b)}));
  }
  // a dictionary of what tools put around JSON documents: XSSI guards,
  // byte order marks, comments, padding - alone, before a document, and
  // with or without a line end
  let wrappers: &[&[u8]] = &[
    b")]}'", b")]}'\n", b")]}',\n", b")]}'\r", b"\xEF\xBB\xBF", b"\xFF\xFE", b"while(1);", b"for(;;);",
    b"//", b"// x\n", b"/*", b"/**/", b"#", b"\n", b"\r\n", b" ", b"\t", b"\0", b"callback(", b"{}&&",
  ];
  for _ in 0..3 {
    let w = wrappers[g.rng.gen_range(0..wrappers.len())];
    let doc = valid[g.rng.gen_range(0..valid.len())].as_bytes();
    let mut b: Vec<u8> = w.to_vec();
    match g.rng.gen_range(0..5) {
      0 => {}
      1 => b.extend_from_slice(doc),
      2 => {
        b.extend_from_slice(b"\n");
        b.extend_from_slice(doc);
      }
      3 => {
        let mut d = doc.to_vec();
        d.extend_from_slice(w);
        b = d;
      }
      _ => b.extend((0..g.rng.gen_range(0..6)).map(|_| g.rng.gen::<u8>())),
    }
    let via = g.pick(&["json", "slice", "reader", "reader1", "reader7"]);
    steps.push(json!({"op": "parse", "via": via, "b": bytes_json(&b)}));
  }
  steps
}

/// random sorted mapping sequences (big values included) and random
/// strings of the v3 grammar
fn codec_steps(g: &mut Gen) -> Vec<Value> {
  let big = |g: &mut Gen| -> i64 {
    match g.rng.gen_range(0..10) {
      0..=4 => g.rng.gen_range(0..40),
      5..=6 => g.rng.gen_range(0..2000),
      7 => g.pick(&[15, 16, 31, 32, 1023, 1024, 32767, 32768, 1048575, 1048576]),
      8 => g.rng.gen_range(0..(1i64 << 30)),
      _ => (1i64 << 30) - g.rng.gen_range(1..3),
    }
  };
  let n = g.rng.gen_range(1..=8);
  let mut segs: Vec<Vec<i64>> = vec![];
  let mut gl = 1i64;
  let mut gc = 0i64;
  for _ in 0..n {
    if g.rng.gen_bool(0.3) {
      gl += g.rng.gen_range(1..4);
      gc = if g.rng.gen_bool(0.5) { 0 } else { big(g) };
    } else if g.rng.gen_bool(0.85) {
      gc = (gc + big(g) / 8).min((1 << 30) - 1);
    }
    if g.rng.gen_bool(0.2) {
      segs.push(vec![gl, gc, -1, 0, 0, -1]);
    } else {
      let ni = if g.rng.gen_bool(0.4) { big(g) } else { -1 };
      let repeat = g.rng.gen_bool(0.25) && segs.last().map(|s| s[2] >= 0).unwrap_or(false);
      if repeat {
        let l = segs.last().unwrap().clone();
        segs.push(vec![gl, gc, l[2], l[3], l[4], if g.rng.gen_bool(0.5) { -1 } else { l[5] }]);
      } else {
        segs.push(vec![gl, gc, big(g), big(g) + 1, big(g), ni]);
      }
    }
  }
  let mut steps = vec![json!({"op": "codec", "segs": segs}), json!({"op": "lines_encode", "segs": segs})];
  // a grammar string: canonical encoding with random respellings
  let as_segs: Vec<Seg> = segs.iter().map(|s| (s[0], s[1], s[2], s[3], s[4], s[5])).collect();
  let canon = encode_segs(&as_segs);
  let mut spelled = vec![];
  for (i, c) in canon.iter().enumerate() {
    let is_last_digit = B64.iter().position(|b| b == c).map(|v| v < 32).unwrap_or(false);
    if is_last_digit && g.rng.gen_bool(0.15) {
      // one redundant continuation digit
      let v = B64.iter().position(|b| b == c).unwrap();
      spelled.push(B64[v + 32]);
      spelled.push(b'A');
    } else {
      spelled.push(*c);
    }
    if (*c == b',' || *c == b';') && g.rng.gen_bool(0.1) {
      spelled.push(b',');
    }
    let _ = i;
  }
  if g.rng.gen_bool(0.2) {
    spelled.push(g.pick(&[b',', b';']));
  }
  steps.push(json!({"op": "decode", "m": bytes_json(&spelled)}));
  steps
}

/// Sorted maps with one field of one segment at an extreme of u32, as a
/// SourceMapSource on its own, as the outer or the inner map of a combined
/// one, and beneath every composite.
fn extreme_programs() -> Vec<Value> {
  let values: [i64; 5] = [u32::MAX as i64, u32::MAX as i64 - 1, 1 << 31, (1 << 31) - 1, 70_000];
  let text = "ab\ncd\n";
  let mk = |segs: &[Seg]| -> Value {
    json!({"m": bytes_json(&encode_segs(segs)), "sources": [name_json("a.js"), name_json("b.js")],
           "contents": [name_json("ab\ncd\n"), name_json("x")], "names": [name_json("n0")],
           "root": [], "file": [], "dbg": []})
  };
  let sms = |m: Value, inner: Option<Value>| -> Value {
    json!({"k": "sms", "b": bytes_json(text.as_bytes()), "name": name_json("a.js"), "map": m,
           "inner": inner.map(|i| vec![i]).unwrap_or_default(), "osrc": [], "remove": false})
  };
  let raw = |t: &str| json!({"k": "raw", "sub": "str", "b": bytes_json(t.as_bytes())});
  let plain: Vec<Seg> = vec![(1, 0, 0, 1, 0, -1), (2, 0, 0, 2, 0, 0)];
  let mut out = vec![];
  for field in 0..5 {
    for v in values {
      for which in 0..2 {
        let mut segs = plain.clone();
        // the generated column must stay sorted: the extreme goes to a
        // second segment on the same line
        if field == 0 {
          let line = segs[which].0;
          segs.insert(which + 1, (line, v, 0, 1, 0, -1));
        } else {
          let s = &mut segs[which];
          match field {
            1 => s.2 = v,
            2 => s.3 = v,
            3 => s.4 = v,
            _ => s.5 = v,
          }
        }
        let m = mk(&segs);
        let leaf = sms(m.clone(), None);
        let trees = vec![
          leaf.clone(),
          json!({"k": "concat", "mode": "boxed", "ch": [raw("x"), leaf.clone(), raw("y")]}),
          json!({"k": "concat", "mode": "boxed", "ch": [raw("x\n"), leaf.clone(), leaf.clone()]}),
          json!({"k": "replace", "inner": leaf.clone(),
                 "repls": [{"s": 1, "e": 2, "c": bytes_json(b"Z\n"), "n": [], "enf": 1, "api": "replace"}]}),
          json!({"k": "concat", "mode": "boxed", "ch": [
            {"k": "replace", "inner": leaf.clone(),
             "repls": [{"s": 0, "e": 0, "c": bytes_json(b"q"), "n": [bytes_json(b"nm")], "enf": 1, "api": "replace"}]},
            raw("t")]}),
          json!({"k": "cached", "cid": 1, "inner": leaf.clone()}),
          json!({"k": "concat", "mode": "boxed", "ch": [{"k": "cached", "cid": 2, "inner": leaf.clone()}, raw("z")]}),
          // as the outer map of a combined source map, and as the inner one
          sms(m.clone(), Some(mk(&plain))),
          sms(mk(&plain), Some(m.clone())),
          json!({"k": "concat", "mode": "boxed", "ch": [raw("x"), sms(mk(&plain), Some(m.clone()))]}),
        ];
        for t in trees {
          let mut steps = vec![json!({"op": "build", "dst": 0, "tree": t}), json!({"op": "source", "r": 0})];
          for columns in [true, false] {
            steps.push(json!({"op": "map", "r": 0, "columns": columns}));
            for fin in [false, true] {
              steps.push(json!({"op": "stream", "r": 0, "columns": columns, "final": fin}));
            }
            // a second time: replay from caches
            steps.push(json!({"op": "map", "r": 0, "columns": columns}));
          }
          steps.push(json!({"op": "hash", "r": 0, "h": "twox"}));
          steps.push(json!({"op": "size", "r": 0}));
          out.push(json!({"steps": steps}));
        }
      }
    }
  }
  out
}

pub fn generate(kind: &str, seed: u64, count: usize, out: &str) {
  std::panic::set_hook(Box::new(|_| {}));
  let cfg = match kind {
    "stream_any" | "views" => Cfg::any(),
    "identity" | "edit_pairs" => Cfg { inner_maps: true, wild_maps: false, depth: 3, ..Cfg::any() },
    "wild" => Cfg { inner_maps: true, custom: true, ..Cfg::any() },
    "stream_unsorted" => Cfg { unsorted_maps: true, ..Cfg::any() },
    "replace_hist" => Cfg { depth: 1, wild_maps: false, ..Cfg::any() },
    "cached_hist" => Cfg { cached_under_replace: false, depth: 3, ..Cfg::ascii() },
    "orig_trees" => Cfg { sms: false, cached_under_replace: false, depth: 4, max_text: 30, ..Cfg::ascii() },
    "laws" | "concat_children" | "replace_inner" | "sms_leaf" | "combined" => Cfg { depth: 2, ..Cfg::ascii() },
    _ => Cfg::ascii(),
  };
  let mut g = Gen::new(seed, cfg);
  let mut f = std::io::BufWriter::new(std::fs::File::create(out).unwrap());
  let mut pid = 0u64;
  if kind == "extremes" {
    // not random: every 32-bit field of a segment at its extremes, in the
    // first or in a later segment, under every kind of enclosing source
    for prog in extreme_programs() {
      if pid as usize >= count {
        break;
      }
      let mut prog = prog;
      prog["pid"] = json!(pid);
      writeln!(f, "{}", prog).unwrap();
      pid += 1;
    }
    return;
  }
  while (pid as usize) < count {
    g.reset_program();
    if kind == "ropes" {
      let prog = rope_program(&mut g);
      let mut prog = prog;
      prog["pid"] = json!(pid);
      writeln!(f, "{}", prog).unwrap();
      pid += 1;
      continue;
    }
    if kind == "decoder_junk" || kind == "parser_bytes" || kind == "json_maps" {
      let steps = match kind {
        "decoder_junk" => junk_steps(&mut g),
        "parser_bytes" => parser_steps(&mut g),
        _ => json_steps(&mut g),
      };
      writeln!(f, "{}", json!({"pid": pid, "steps": steps})).unwrap();
      pid += 1;
      continue;
    }
    if kind == "codec" {
      let steps = codec_steps(&mut g);
      writeln!(f, "{}", json!({"pid": pid, "steps": steps})).unwrap();
      pid += 1;
      continue;
    }
    // building inside the generator may hit a crate panic; skip such shapes
    let tree = match std::panic::catch_unwind(std::panic::AssertUnwindSafe(|| {
      let d = g.cfg.depth;
      g.tree(d, false)
    })) {
      Ok(t) => t,
      Err(_) => continue,
    };
    let mut steps = vec![json!({"op": "build", "dst": 0, "tree": tree})];
    let obs_all = |r: u64| -> Vec<Value> {
      vec![obs("source", r), map(r, true), map(r, false)]
    };
    match kind {
      "laws" => {
        // (flat, regrouped) or (x, wrapped x) pairs
        let more = std::panic::catch_unwind(std::panic::AssertUnwindSafe(|| {
          (g.tree(2, false), g.tree(2, false))
        }));
        let (b, c) = match more {
          Ok(x) => x,
          Err(_) => continue,
        };
        let a = steps[0]["tree"].clone();
        let empty = json!({"k": "raw", "sub": "str", "b": []});
        let cc = |ch: Vec<Value>| json!({"k": "concat", "mode": "boxed", "ch": ch});
        let pick = g.rng.gen_range(0..17);
        let (lhs, rhs) = match pick {
          0 => (cc(vec![a.clone(), b.clone(), c.clone()]),
                json!({"k": "concat", "mode": "typed", "ch": [cc(vec![a, b]), cc(vec![c])]})),
          1 => (cc(vec![a.clone(), b.clone(), c.clone()]), cc(vec![cc(vec![a, b]), c])),
          2 => (cc(vec![a.clone(), b.clone(), c.clone()]), cc(vec![a, cc(vec![b, c])])),
          3 => (cc(vec![a.clone(), b.clone(), c.clone()]),
                json!({"k": "concat", "mode": "boxed", "ch": [a], "adds": [b, c]})),
          4 => (cc(vec![a.clone(), b.clone(), c.clone()]),
                json!({"k": "concat", "mode": "boxed", "ch": [a], "adds": [cc(vec![b, c])]})),
          5 => (cc(vec![a.clone(), b.clone(), c.clone()]),
                cc(vec![json!({"k": "box", "inner": cc(vec![a, b])}), c])),
          6 => (a.clone(), cc(vec![a])),
          7 => (a.clone(), cc(vec![a, empty])),
          8 => (a.clone(), cc(vec![empty, a])),
          9 => (a.clone(), json!({"k": "replace", "inner": a, "repls": []})),
          10 => {
            let n = g.rng.gen_range(1..3);
            let repls: Vec<Value> = (0..n).map(|_| {
              let p = g.rng.gen_range(0..6);
              json!({"s": p, "e": p, "c": [], "n": [], "enf": g.rng.gen_range(0..3), "api": "replace_enf"})
            }).collect();
            (a.clone(), json!({"k": "replace", "inner": a, "repls": repls}))
          }
          11 => (a.clone(), json!({"k": "cached", "cid": 99, "inner": a})),
          12 => (a.clone(), json!({"k": "box", "inner": a})),
          13 => (cc(vec![a.clone(), b.clone()]),
                cc(vec![json!({"k": "cached", "cid": 98, "inner": a}), json!({"k": "box", "inner": b})])),
          // a wrapper in the middle: what follows it is placed after the end the wrapper reports
          14 => (cc(vec![a.clone(), b.clone(), c.clone()]),
                cc(vec![a, json!({"k": "cached", "cid": 97, "inner": b}), c])),
          15 => (cc(vec![cc(vec![a.clone(), empty.clone()]), c.clone()]),
                cc(vec![json!({"k": "cached", "cid": 96, "inner": cc(vec![a, empty])}), c])),
          _ => (cc(vec![cc(vec![a.clone(), b.clone(), empty.clone()]), c.clone()]),
                cc(vec![json!({"k": "cached", "cid": 95, "inner": cc(vec![a, b, empty])}), c])),
        };
        steps = vec![json!({"op": "build", "dst": 0, "tree": lhs})];
        steps.extend(obs_all(0));
        steps.push(json!({"op": "build", "dst": 1, "tree": rhs}));
        steps.extend(obs_all(1));
        steps.push(json!({"op": "law", "law": "same", "a": 0, "b": 1}));
        if matches!(pick, 11 | 13..) {
          // the second answer of a CachedSource is replayed from what the first stored
          steps.extend(obs_all(1));
          steps.push(json!({"op": "law", "law": "same", "a": 0, "b": 1}));
        }
      }
      "identity" if g.rng.gen_bool(0.25) => {
        // equal call sequences, different observer histories: r0 is observed
        // between the mutating calls, r1 is not
        let inner = steps[0]["tree"].clone();
        let inner_text = match std::panic::catch_unwind(|| Gen::text_of(&inner)) {
          Ok(t) => t,
          Err(_) => continue,
        };
        let t = json!({"k": "replace", "inner": inner, "repls": []});
        let mut v = vec![json!({"op": "build", "dst": 0, "tree": t.clone()}),
                         json!({"op": "build", "dst": 1, "tree": t})];
        let n = g.rng.gen_range(2..=6);
        let mut calls = Vec::new();
        for _ in 0..n {
          let mut m = g.replacement(&inner_text);
          m["op"] = json!("replace");
          calls.push(m);
        }
        for m in &calls {
          let mut m0 = m.clone();
          m0["r"] = json!(0);
          v.push(m0);
          match g.rng.gen_range(0..8) {
            0 => v.push(obs("source", 0)),
            1 => v.push(json!({"op": "hash", "r": 0, "h": "twox"})),
            2 => v.push(obs("rope", 0)),
            3 => v.push(map(0, true)),
            4 => v.push(obs("size", 0)),
            _ => {}
          }
        }
        for m in &calls {
          let mut m1 = m.clone();
          m1["r"] = json!(1);
          v.push(m1);
        }
        let eq = |a: u64, b: u64| json!({"op": "eq", "a": a, "b": b});
        v.push(eq(0, 1));
        v.push(eq(1, 0));
        for r in 0..2u64 {
          v.extend(vec![obs("source", r), obs("buffer", r), map(r, true), map(r, false),
                        json!({"op": "hash", "r": r, "h": "twox"})]);
        }
        v.push(eq(0, 1));
        steps = v;
      }
      "identity" | "edit_pairs" => {
        let t = steps[0]["tree"].clone();
        let mut e = t.clone();
        let edited = g.rng.gen_bool(if kind == "identity" { 0.4 } else { 1.0 }) && mutate(&mut e, &mut g);
        // the edited tree must still build (text edits keep UTF-8, positions stay u32)
        if std::panic::catch_unwind(|| Gen::text_of(&e)).is_err() {
          continue;
        }
        let pair = |r: u64| vec![obs("source", r), obs("buffer", r), map(r, true), map(r, false),
                                 json!({"op": "hash", "r": r, "h": "twox"}),
                                 json!({"op": "hash", "r": r, "h": "feed"})];
        let eq = |a: u64, b: u64| json!({"op": "eq", "a": a, "b": b});
        let mut v = vec![json!({"op": "build", "dst": 0, "tree": t}), json!({"op": "build", "dst": 1, "tree": e}),
                         eq(0, 1), eq(1, 0)];
        // observers on one operand before comparing again
        for _ in 0..g.rng.gen_range(0..3) {
          v.push(match g.rng.gen_range(0..7) {
            0 => obs("source", 0),
            1 => map(0, g.rng.gen_bool(0.5)),
            2 => stream(0, g.rng.gen_bool(0.5), false),
            3 => json!({"op": "hash", "r": 0, "h": "twox"}),
            4 => obs("size", 0),
            5 => obs("rope", 0),
            _ => obs("buffer", 0),
          });
          v.push(eq(0, 1));
        }
        v.extend(pair(0));
        v.extend(pair(1));
        v.push(eq(0, 1));
        v.push(eq(1, 0));
        if edited {
          v.push(json!({"op": "law", "law": "edit_pair", "a": 0, "b": 1}));
        }
        v.push(json!({"op": "clone", "dst": 2, "src": 0}));
        v.push(eq(0, 2));
        v.push(json!({"op": "hash", "r": 2, "h": "twox"}));
        v.push(obs("source", 2));
        v.push(map(2, true));
        v.push(eq(2, 0));
        v.push(json!({"op": "hash_tree", "tree": steps[0]["tree"].clone()}));
        steps = v;
      }
      "cached_hist" => {
        let x = steps[0]["tree"].clone();
        let pre = g.text(4);
        let mut v = vec![
          json!({"op": "build", "dst": 1, "tree": x}),
          obs("source", 1), stream(1, true, false), stream(1, false, false), map(1, true), map(1, false),
          json!({"op": "build", "dst": 4, "tree": {"k": "concat", "mode": "boxed",
                 "ch": [{"k": "raw", "sub": "str", "b": bytes_json(pre.as_bytes())}, x]}}),
          obs("source", 4), map(4, true), map(4, false),
          json!({"op": "build", "dst": 0, "tree": {"k": "cached", "cid": 77, "inner": x}}),
          json!({"op": "clone", "dst": 2, "src": 0}),
          json!({"op": "build", "dst": 3, "tree": {"k": "concat", "mode": "boxed",
                 "ch": [{"k": "raw", "sub": "str", "b": bytes_json(pre.as_bytes())}, {"k": "reg", "r": 0}]}}),
          json!({"op": "law", "law": "ref", "cached": [0, 2], "pure": 1}),
          json!({"op": "law", "law": "ref", "cached": [3], "pure": 4}),
        ];
        let n = g.rng.gen_range(1..=10);
        for _ in 0..n {
          let r = g.pick(&[0u64, 0, 2]);
          v.push(match g.rng.gen_range(0..10) {
            0 => obs("source", r),
            1 => obs("buffer", r),
            2 => obs("size", r),
            3 => json!({"op": "hash", "r": r, "h": "twox"}),
            4..=5 => map(r, g.rng.gen_bool(0.5)),
            6..=7 => stream(r, g.rng.gen_bool(0.5), false),
            8 => map(3, g.rng.gen_bool(0.5)),
            _ => stream(3, g.rng.gen_bool(0.5), false),
          });
        }
        steps = v;
      }
      "combined" => {
        // SourceMapSource with an inner source map
        let t = g.text(24);
        let x = loop {
          let x = g.text(24);
          if !x.is_empty() {
            break x;
          }
        };
        let n_other = g.rng.gen_range(0..=2usize);
        let inner_at = g.rng.gen_range(0..=n_other);
        let ns = n_other + 1;
        let nn = g.rng.gen_range(0..=2usize);
        // outer segments: originals that point into the inner source lie on
        // characters of x, the others anywhere
        let xlines = Gen::lines_of(&x);
        let mut osegs = g.segs_for(&t, ns, nn, false);
        for sg in osegs.iter_mut() {
          if sg.2 == inner_at as i64 {
            let li = g.rng.gen_range(0..xlines.len() + 1);
            if li < xlines.len() {
              sg.3 = (li + 1) as i64;
              sg.4 = g.rng.gen_range(0..xlines[li].len()) as i64;
            } else {
              sg.3 = (xlines.len() + 1) as i64;
              sg.4 = 0;
            }
          }
        }
        let with_osrc = g.rng.gen_bool(0.5);
        let content_too = g.rng.gen_bool(0.5);
        let mut sources = vec![];
        let mut contents = vec![];
        let mut k = 0;
        for i in 0..ns {
          if i == inner_at {
            sources.push(bytes_json(b"i.js"));
            contents.push(if !with_osrc || content_too { bytes_json(x.as_bytes()) } else { bytes_json(b"") });
          } else {
            sources.push(bytes_json(FILES[k].as_bytes()));
            contents.push(bytes_json(CONTENTS[k].as_bytes()));
            k += 1;
          }
        }
        let onames: Vec<Value> = (0..nn).map(|i| bytes_json(["aa", "x", "n1"][i].as_bytes())).collect();
        let outer = json!({"m": bytes_json(&encode_segs(&osegs)), "sources": sources, "contents": contents,
                           "names": onames, "root": [], "file": [], "dbg": []});
        let ins = g.rng.gen_range(1..=3usize);
        let inn = g.rng.gen_range(0..=2usize);
        let isegs = g.segs_for(&x, ins, inn, false);
        for i in 0..3 {
          g.with_content[i] = true;
        }
        let first = g.rng.gen_range(0..3);
        let mut inner = g.map_json(&isegs, ins, inn, first);
        inner["root"] = json!([]);
        let tree = json!({"k": "sms", "b": bytes_json(t.as_bytes()), "name": bytes_json(b"i.js"),
                          "map": outer, "inner": [inner],
                          "osrc": if with_osrc { vec![bytes_json(x.as_bytes())] } else { vec![] },
                          "remove": g.rng.gen_bool(0.3)});
        steps = vec![json!({"op": "build", "dst": 0, "tree": tree}), obs("source", 0),
                     map(0, true), map(0, false), stream(0, true, false), stream(0, false, false),
                     stream(0, true, true), stream(0, false, true)];
      }
      "sms_leaf" => {
        // one map-carrying leaf, served by SourceMapSource and by the
        // public default helper, directly and inside a ConcatSource
        let t = g.text(30);
        let ns = g.rng.gen_range(1..=3);
        let nn = g.rng.gen_range(0..=2);
        let mut segs = g.segs_for(&t, ns, nn, false);
        // zero-width segments at the end of a line / of the text
        if g.rng.gen_bool(0.3) {
          let lines = Gen::lines_of(&t);
          if !lines.is_empty() {
            let li = g.rng.gen_range(0..lines.len());
            let col = lines[li].len() as i64;
            segs.push(((li + 1) as i64, col, 0, 1, 1, -1));
            segs.sort_by_key(|s| (s.0, s.1));
            segs.dedup_by_key(|s| (s.0, s.1));
          }
        }
        let first = g.rng.gen_range(0..3);
        let m = g.map_json(&segs, ns, nn, first);
        let leaf = json!({"k": "sms", "b": bytes_json(t.as_bytes()), "name": bytes_json(b"gen.js"),
                          "map": m.clone(), "inner": [], "osrc": [], "remove": false});
        let dflt = json!({"k": "default", "b": bytes_json(t.as_bytes()), "map": [m]});
        let four = |r: u64| vec![stream(r, true, false), stream(r, false, false),
                                 stream(r, true, true), stream(r, false, true)];
        let pre = g.text(6);
        steps = vec![json!({"op": "build", "dst": 0, "tree": leaf})];
        steps.extend(four(0));
        steps.extend(obs_all(0));
        steps.push(json!({"op": "build", "dst": 1, "tree": dflt}));
        steps.extend(four(1));
        steps.extend(obs_all(1));
        steps.push(json!({"op": "build", "dst": 3, "tree": {"k": "raw", "sub": "str", "b": bytes_json(pre.as_bytes())}}));
        steps.extend(obs_all(3));
        let which = if g.rng.gen_bool(0.5) { 0 } else { 1 };
        steps.push(json!({"op": "build", "dst": 2, "tree": {"k": "concat", "mode": "boxed",
                          "ch": [{"k": "reg", "r": 3}, {"k": "reg", "r": which}]}}));
        steps.extend(obs_all(2));
        steps.push(json!({"op": "law", "law": "concat_children", "r": 2, "children": [3, which]}));
      }
      "replace_inner" => {
        let inner = steps[0]["tree"].clone();
        let text = match std::panic::catch_unwind(|| Gen::text_of(&inner)) {
          Ok(t) => t,
          Err(_) => continue,
        };
        let n = g.rng.gen_range(1..=4);
        let repls: Vec<Value> = (0..n).map(|_| g.replacement(&text)).collect();
        steps = vec![
          json!({"op": "build", "dst": 1, "tree": inner}),
          stream(1, true, false),
          stream(1, true, false),
          obs("source", 1),
          json!({"op": "build", "dst": 0,
                 "tree": {"k": "replace", "inner": {"k": "reg", "r": 1}, "repls": repls}}),
          obs("source", 0),
          stream(0, true, false),
          map(0, true),
          json!({"op": "law", "law": "replace_inner", "r": 0, "inner": 1}),
        ];
      }
      "concat_children" => {
        let n = g.rng.gen_range(2..=4u64);
        let mut trees = vec![steps[0]["tree"].clone()];
        let mut failed = false;
        for _ in 1..n {
          match std::panic::catch_unwind(std::panic::AssertUnwindSafe(|| g.tree(2, false))) {
            Ok(t) => trees.push(t),
            Err(_) => failed = true,
          }
        }
        if failed {
          continue;
        }
        steps.clear();
        for (i, t) in trees.into_iter().enumerate() {
          let r = i as u64 + 1;
          steps.push(json!({"op": "build", "dst": r, "tree": t}));
          steps.extend(obs_all(r));
          steps.push(stream(r, true, true));
          steps.push(stream(r, true, false));
        }
        let ch: Vec<Value> = (1..=n).map(|r| json!({"k": "reg", "r": r})).collect();
        steps.push(json!({"op": "build", "dst": 0, "tree": {"k": "concat", "mode": "boxed", "ch": ch}}));
        steps.extend(obs_all(0));
        steps.push(stream(0, true, true));
        steps.push(stream(0, true, false));
        steps.push(json!({"op": "law", "law": "concat_children", "r": 0,
                          "children": (1..=n).collect::<Vec<u64>>()}));
      }
      "replace_hist" => {
        // a ReplaceSource over the tree, mutated step by step with
        // observers in between
        let inner_text = match std::panic::catch_unwind(|| Gen::text_of(&steps[0]["tree"])) {
          Ok(t) => t,
          Err(_) => continue,
        };
        let inner = steps[0]["tree"].clone();
        steps[0] = json!({"op": "build", "dst": 0,
          "tree": {"k": "replace", "inner": inner, "repls": []}});
        // mostly a handful of calls; one program in five is a long history with
        // many equal keys (sorting algorithms change behaviour with length)
        let long = g.rng.gen_bool(0.2);
        let n = if long { g.rng.gen_range(30..=70) } else { g.rng.gen_range(1..=6) };
        let mut have_clone = false;
        for k in 0..n {
          let mut m = g.replacement(&inner_text);
          if long {
            // few distinct keys, every content distinct
            let len = inner_text.len() as u64;
            let s = g.rng.gen_range(0..=2u64).min(len);
            let e = (s + g.rng.gen_range(0..=1u64)).min(len);
            let ok = |i: u64| inner_text.is_char_boundary(i as usize);
            if ok(s) && ok(e) {
              m["s"] = json!(s);
              m["e"] = json!(e);
              m["api"] = json!("replace_enf");
            }
            m["c"] = bytes_json(format!("<{k}>").as_bytes());
          }
          m["op"] = json!("replace");
          m["r"] = json!(0);
          steps.push(m);
          match g.rng.gen_range(0..12) {
            0 => steps.push(obs("source", 0)),
            1 => steps.push(obs("rope", 0)),
            2 => steps.push(obs("buffer", 0)),
            3 => steps.push(obs("size", 0)),
            4 => steps.push(map(0, g.rng.gen_bool(0.5))),
            5 => steps.push(json!({"op": "hash", "r": 0, "h": "twox"})),
            6 => steps.push(stream(0, g.rng.gen_bool(0.5), false)),
            7 => {
              steps.push(json!({"op": "clone", "dst": 1, "src": 0}));
              steps.push(obs("source", 1));
              have_clone = true;
            }
            8 => steps.push(obs("debug", 0)),
            _ => {}
          }
        }
        steps.push(obs("source", 0));
        steps.push(obs("rope", 0));
        steps.push(obs("buffer", 0));
        steps.push(obs("size", 0));
        steps.push(json!({"op": "writer", "r": 0, "kind": "ok", "k": 0}));
        steps.push(stream(0, true, false));
        if have_clone {
          steps.push(obs("source", 1));
          steps.push(obs("rope", 1));
        }
      }
      "views" => {
        steps.push(obs("source", 0));
        steps.push(obs("buffer", 0));
        steps.push(obs("size", 0));
        steps.push(obs("rope", 0));
        for _ in 0..3 {
          let k = g.rng.gen_range(0..40);
          let wk = g.pick(&["err", "zero", "intr", "chunky", "ok", "flaky", "flaky", "chunk7"]);
          steps.push(json!({"op": "writer", "r": 0, "kind": wk, "k": k}));
        }
      }
      _ => {
        steps.push(obs("source", 0));
        steps.push(stream(0, true, false));
        steps.push(stream(0, false, false));
        steps.push(stream(0, true, true));
        steps.push(stream(0, false, true));
        steps.push(map(0, true));
        steps.push(map(0, false));
        // the piece-wise view: ropes of ropes are sliced again by enclosing sources
        steps.push(obs("rope", 0));
        // a clone taken after the first streams: cached nodes now replay
        steps.push(json!({"op": "clone", "dst": 1, "src": 0}));
        steps.push(stream(1, true, false));
        steps.push(stream(1, false, false));
      }
    }
    writeln!(f, "{}", json!({"pid": pid, "steps": steps})).unwrap();
    pid += 1;
  }
  f.flush().unwrap();
}
