//! Seeded random program generators (beyond the exhaustive TLC scopes).
pub fn generate(_kind: &str, _seed: u64, _count: usize, _out: &str) {
  eprintln!("gen: not built yet");
  std::process::exit(2);
}
