//! Deterministic thread scheduler driven by the crate's schedule points
//! (filled in with the C18 work).

/// Called from the crate at every schedule point.
pub fn on_point(_id: &'static str, _obj: usize, _arg: usize) {}

pub fn run(_schedules: &str, _out: &str) {
  eprintln!("sched: not built yet");
  std::process::exit(2);
}
