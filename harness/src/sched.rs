//! Deterministic thread scheduler driven by the crate's schedule points
//! (feature `verif`). Managed threads park at every point; the scheduler
//! releases exactly one of them at a time, following a schedule produced by
//! TLC (a list of thread ids) or a seeded random choice, and logs the order
//! of releases. Events are logged while the released thread is the only one
//! running, so the log is a real linearization of the shared-state accesses.
//!
//! A point whose id ends in '!' is log-only (the thread does not park).

use std::{
  cell::Cell,
  collections::HashMap,
  sync::{Arc, Condvar, Mutex},
  time::{Duration, Instant},
};

use rand::{rngs::StdRng, Rng, SeedableRng};
use serde_json::{json, Value};

use crate::{build::Val, exec::Machine};

#[derive(Clone, Debug, PartialEq)]
enum Status {
  Running,
  /// parked at (id, obj, arg)
  Parked(&'static str, usize, usize),
  /// released but did not reach a point in time: waiting for a real lock
  Blocked,
  Done,
}

struct Inner {
  active: bool,
  status: Vec<Status>,
  /// per thread: released and not yet woken up (a single shared slot could be
  /// overwritten before a slow thread has seen its turn)
  granted: Vec<bool>,
  log: Vec<Value>,
  objs: HashMap<usize, usize>,
  idents: HashMap<usize, usize>,
  /// (object, shard) -> holder
  held: HashMap<(usize, usize), usize>,
}

struct Sched {
  m: Mutex<Inner>,
  cv: Condvar,
}

static SCHED: std::sync::OnceLock<Arc<Sched>> = std::sync::OnceLock::new();

thread_local! {
  static TID: Cell<Option<usize>> = const { Cell::new(None) };
}

fn sched() -> &'static Arc<Sched> {
  SCHED.get_or_init(|| {
    Arc::new(Sched {
      m: Mutex::new(Inner {
        active: false,
        status: vec![],
        granted: vec![],
        log: vec![],
        objs: HashMap::new(),
        idents: HashMap::new(),
        held: HashMap::new(),
      }),
      cv: Condvar::new(),
    })
  })
}

fn decode(inner: &mut Inner, id: &str, obj: usize, arg: usize) -> Value {
  let n = inner.objs.len();
  let o = *inner.objs.entry(obj).or_insert(n);
  if id.starts_with("cached.") {
    let key = arg & 3;
    let ident_raw = (arg >> 2) & ((1usize << 48) - 1);
    let shard = arg >> 50;
    let ident = match ident_raw {
      0 => 0,
      1 => 1,
      p => {
        let k = inner.idents.len() + 2;
        *inner.idents.entry(p).or_insert(k)
      }
    };
    json!({"obj": o, "key": key, "ident": ident, "shard": shard})
  } else {
    json!({"obj": o, "arg": arg})
  }
}

/// Called from the crate at every schedule point.
pub fn on_point(id: &'static str, obj: usize, arg: usize) {
  let Some(tid) = TID.with(|t| t.get()) else {
    return;
  };
  let s = sched();
  let mut g = s.m.lock().unwrap();
  if !g.active {
    return;
  }
  if id.ends_with('!') {
    let mut ev = decode(&mut g, id, obj, arg);
    ev["op"] = json!("ev");
    ev["t"] = json!(tid);
    ev["id"] = json!(id);
    track_locks(&mut g, tid, id, &ev);
    g.log.push(ev);
    return;
  }
  if id == "replace.index.locked" {
    // the mutex of the sorted index is ours until we are released from here
    let ev = decode(&mut g, id, obj, arg);
    let key = (ev["obj"].as_u64().unwrap_or(0) as usize, usize::MAX);
    g.held.insert(key, tid);
  }
  if matches!(id, "cached.stream.occupied" | "cached.stream.vacant") {
    // the entry lock of this shard is ours from here to `released!`
    let ev = decode(&mut g, id, obj, arg);
    let key = (
      ev["obj"].as_u64().unwrap_or(0) as usize,
      ev["shard"].as_u64().unwrap_or(0) as usize,
    );
    g.held.insert(key, tid);
  }
  g.status[tid] = Status::Parked(id, obj, arg);
  s.cv.notify_all();
  while !g.granted[tid] {
    g = s.cv.wait(g).unwrap();
  }
  g.granted[tid] = false;
  g.status[tid] = Status::Running;
  if id == "replace.index.locked" {
    let o = g.objs.get(&obj).copied().unwrap_or(0);
    if g.held.get(&(o, usize::MAX)) == Some(&tid) {
      g.held.remove(&(o, usize::MAX));
    }
  }
  let mut ev = decode(&mut g, id, obj, arg);
  ev["op"] = json!("ev");
  ev["t"] = json!(tid);
  ev["id"] = json!(id);
  // the identity seen when the thread arrived may be stale by now; events
  // that report what the access itself saw are the log-only ones
  track_locks(&mut g, tid, id, &ev);
  g.log.push(ev);
}

fn track_locks(g: &mut Inner, tid: usize, id: &str, ev: &Value) {
  let key = (
    ev["obj"].as_u64().unwrap_or(0) as usize,
    ev["shard"].as_u64().unwrap_or(0) as usize,
  );
  match id {
    // released from the point right after the entry lock was taken
    "cached.stream.occupied" | "cached.stream.vacant" => {}
    "cached.stream.released!" => {
      if g.held.get(&key) == Some(&tid) {
        g.held.remove(&key);
      }
    }
    _ => {}
  }
}

fn log_ret(tid: usize, rec: Value) {
  let s = sched();
  let mut g = s.m.lock().unwrap();
  let mut rec = rec;
  rec["tid"] = json!(tid);
  g.log.push(rec);
}

fn finish(tid: usize) {
  let s = sched();
  let mut g = s.m.lock().unwrap();
  g.status[tid] = Status::Done;
  s.cv.notify_all();
}

/// Would releasing this parked thread run into a shard lock somebody holds?
fn would_block(g: &Inner, tid: usize) -> bool {
  if let Status::Parked(id, obj, arg) = &g.status[tid] {
    if matches!(*id, "cached.stream.entry" | "cached.map.get" | "cached.map.insert") {
      if let Some(o) = g.objs.get(obj) {
        let shard = arg >> 50;
        if let Some(h) = g.held.get(&(*o, shard)) {
          return *h != tid;
        }
      }
    }
    // the index mutex of a ReplaceSource: its readers and its sorter need it,
    // and so does Clone (which has no point of its own: the thread waits at
    // op.start with arg 1 when its next call is a clone)
    if matches!(*id, "replace.read_index" | "replace.sort.store_index") {
      if let Some(o) = g.objs.get(obj) {
        if let Some(h) = g.held.get(&(*o, usize::MAX)) {
          return *h != tid;
        }
      }
    }
    if *id == "op.start" && *arg == 1 {
      if let Some(o) = g.objs.get(obj) {
        if let Some(h) = g.held.get(&(*o, usize::MAX)) {
          return *h != tid;
        }
      }
    }
  }
  false
}

/// Runs one concurrent program. Returns the records (setup, events, returns).
pub fn run_program(pid: u64, prog: &Value) -> Vec<Value> {
  let mut recs = vec![];
  recs.push(json!({"op": "conc_begin", "pid": pid, "oc": "ok",
                   "probe": prog["probe"].as_bool().unwrap_or(false),
                   "model": prog["model"].clone(),
                   "schedule": prog["schedule"].as_array().cloned().unwrap_or_default()}));
  let mut machine = Machine::new();
  for step in prog["setup"].as_array().map(|a| a.as_slice()).unwrap_or(&[]) {
    recs.push(machine.step(pid, step));
  }
  let shared: Arc<Vec<Option<Val>>> = Arc::new(std::mem::take(&mut machine.regs));
  let threads: Vec<Vec<Value>> = prog["threads"]
    .as_array()
    .map(|a| a.iter().map(|t| t.as_array().cloned().unwrap_or_default()).collect())
    .unwrap_or_default();
  let n = threads.len();
  let s = sched();
  {
    let mut g = s.m.lock().unwrap();
    g.active = true;
    g.status = vec![Status::Running; n];
    g.granted = vec![false; n];
    g.log.clear();
    g.objs.clear();
    g.idents.clear();
    g.held.clear();
  }
  let mut handles = vec![];
  for (tid, ops) in threads.into_iter().enumerate() {
    let shared = shared.clone();
    handles.push(std::thread::spawn(move || {
      TID.with(|t| t.set(Some(tid)));
      let mut m = Machine::with_shared(shared);
      for op in ops {
        // a clone has no point of its own: the object it is about to lock
        // travels with op.start
        let target = m.clone_target(&op);
        on_point("op.start", target, usize::from(target != 0));
        let rec = m.step(pid, &op);
        log_ret(tid, rec);
      }
      finish(tid);
    }));
  }
  // the schedule: thread ids from TLC, then (or only) seeded random choices
  let schedule: Vec<usize> = prog["schedule"]
    .as_array()
    .map(|a| a.iter().map(|x| x.as_u64().unwrap() as usize).collect())
    .unwrap_or_default();
  let mut rng = StdRng::seed_from_u64(prog["seed"].as_u64().unwrap_or(pid));
  let mut next = 0usize;
  let mut extra = 0usize;
  let mut outcome = "completed";
  let mut last_progress = Instant::now();
  // refusal probing: release threads the model says cannot move (they want a
  // shard lock somebody holds) and see that they really wait
  let probe = prog["probe"].as_bool().unwrap_or(false);
  let mut probed: Option<usize> = None;
  loop {
    let mut g = s.m.lock().unwrap();
    // wait until nobody is running (blocked threads do not count)
    let deadline = Instant::now() + Duration::from_millis(150);
    while g.status.iter().any(|st| *st == Status::Running) {
      let now = Instant::now();
      if now >= deadline {
        for st in g.status.iter_mut() {
          if *st == Status::Running {
            *st = Status::Blocked;
          }
        }
        break;
      }
      let (ng, _) = s.cv.wait_timeout(g, deadline - now).unwrap();
      g = ng;
    }
    if let Some(t) = probed.take() {
      let waited = g.status[t] == Status::Blocked;
      g.log.push(json!({"op": "probe", "t": t, "waited": waited}));
    }
    if g.status.iter().all(|st| *st == Status::Done) {
      break;
    }
    let parked: Vec<usize> = (0..n)
      .filter(|t| matches!(g.status[*t], Status::Parked(..)))
      .collect();
    if parked.is_empty() {
      // only blocked threads are left: give them time, then call it a deadlock
      if last_progress.elapsed() > Duration::from_secs(20) {
        outcome = "deadlock";
        break;
      }
      drop(g);
      std::thread::sleep(Duration::from_millis(20));
      let mut g = s.m.lock().unwrap();
      // a blocked thread that has parked meanwhile shows up as Parked
      for st in g.status.iter_mut() {
        if *st == Status::Blocked {
          // still blocked or running towards a point; keep waiting
        }
      }
      continue;
    }
    last_progress = Instant::now();
    let choice = if next < schedule.len() {
      let t = schedule[next];
      next += 1;
      if !parked.contains(&t) {
        if !probe {
          g.log.push(json!({"op": "sched_note", "note": "scheduled thread not parked", "t": t, "at": next - 1}));
          outcome = "diverged";
        }
        // fall back to any parked thread so that the program completes
        // (a probe program's schedule is only a prefix to steer by)
        parked[0]
      } else {
        if probe && would_block(&g, t) {
          probed = Some(t);
        }
        t
      }
    } else {
      extra += 1;
      let free: Vec<usize> = parked.iter().copied().filter(|t| !would_block(&g, *t)).collect();
      let pool = if free.is_empty() || probe { &parked } else { &free };
      let c = pool[rng.gen_range(0..pool.len())];
      if probe && would_block(&g, c) {
        probed = Some(c);
      }
      c
    };
    g.status[choice] = Status::Running;
    g.granted[choice] = true;
    s.cv.notify_all();
  }
  let deadlocked = outcome == "deadlock";
  if !deadlocked {
    for h in handles {
      let _ = h.join();
    }
  }
  let mut g = s.m.lock().unwrap();
  g.active = false;
  for mut ev in g.log.drain(..) {
    ev["pid"] = json!(pid);
    if ev.get("oc").is_none() {
      ev["oc"] = json!("ok");
    }
    recs.push(ev);
  }
  // sequential calls after the threads have finished: what the caches hold now
  if !deadlocked {
    if let Some(after) = prog["after"].as_array() {
      drop(g);
      let mut machine = Machine::new();
      machine.regs = (*shared).clone();
      for step in after {
        let mut rec = machine.step(pid, step);
        rec["after"] = json!(true);
        recs.push(rec);
      }
      g = s.m.lock().unwrap();
    }
  }
  recs.push(json!({"op": "conc_end", "pid": pid, "oc": "ok", "outcome": outcome, "probe": probe,
                   "scheduled": next, "schedule_len": schedule.len(), "extra": extra}));
  if deadlocked {
    // threads are stuck inside the crate: leave them and let the parent see it
    recs.push(json!({"op": "died", "pid": pid, "oc": "hang", "status": "deadlock"}));
  }
  recs
}

pub fn run(_schedules: &str, _out: &str) {
  eprintln!("use `rsv exec` with programs of kind \"conc\"");
  std::process::exit(2);
}
