//! Deterministic thread scheduler (filled in with the C18 work).
pub fn run(_schedules: &str, _out: &str) {
  eprintln!("sched: not built yet");
  std::process::exit(2);
}
