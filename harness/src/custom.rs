//! User-defined sources used by the harness: a spy that captures the
//! crate-internal `MapOptions { final_source: true }`, a source built on the
//! public `stream_chunks_default` helper, and a scripted source that emits a
//! given list of chunk events (used to reach the line-only encoder and to
//! model children that announce sources / names lazily).

use std::{
  borrow::Cow,
  hash::{Hash, Hasher},
  sync::{Arc, Mutex},
};

use rspack_sources::{
  stream_chunks::{
    stream_chunks_default, GeneratedInfo, OnChunk, OnName, OnSource,
    StreamChunks,
  },
  ConcatSource, MapOptions, Mapping, OriginalLocation, Rope, Source,
  SourceMap,
};

// ---------------------------------------------------------------- spy

#[derive(Clone, Debug)]
pub struct SpySource {
  captured: Arc<Mutex<Option<MapOptions>>>,
}

impl PartialEq for SpySource {
  fn eq(&self, _: &Self) -> bool {
    true
  }
}
impl Eq for SpySource {}
impl Hash for SpySource {
  fn hash<H: Hasher>(&self, state: &mut H) {
    "SpySource".hash(state);
  }
}

impl Source for SpySource {
  fn source(&self) -> Cow<str> {
    Cow::Borrowed("")
  }
  fn rope(&self) -> Rope<'_> {
    Rope::new()
  }
  fn buffer(&self) -> Cow<[u8]> {
    Cow::Borrowed(&[])
  }
  fn size(&self) -> usize {
    0
  }
  fn map(&self, _: &MapOptions) -> Option<SourceMap> {
    None
  }
  fn to_writer(&self, _: &mut dyn std::io::Write) -> std::io::Result<()> {
    Ok(())
  }
}

impl StreamChunks for SpySource {
  fn stream_chunks<'a>(
    &'a self,
    options: &MapOptions,
    _on_chunk: OnChunk<'_, 'a>,
    _on_source: OnSource<'_, 'a>,
    _on_name: OnName<'_, 'a>,
  ) -> GeneratedInfo {
    *self.captured.lock().unwrap() = Some(options.clone());
    GeneratedInfo {
      generated_line: 1,
      generated_column: 0,
    }
  }
}

/// Obtain the options value the crate itself passes down from `map()`:
/// a one-child ConcatSource forwards them unchanged to its child.
pub fn internal_options(columns: bool) -> MapOptions {
  let spy = SpySource {
    captured: Default::default(),
  };
  let concat = ConcatSource::new([spy.clone()]);
  let _ = concat.map(&MapOptions::new(columns));
  let got = spy.captured.lock().unwrap().clone();
  got.expect("spy did not receive options")
}

pub fn options(columns: bool, final_source: bool) -> MapOptions {
  if final_source {
    internal_options(columns)
  } else {
    MapOptions::new(columns)
  }
}

// ------------------------------------------------- default-helper source

/// A user-defined source served through the public default streaming helper.
#[derive(Clone, Debug, PartialEq, Eq, Hash)]
pub struct DefaultSource {
  pub text: String,
  pub map: Option<SourceMap>,
}

impl Source for DefaultSource {
  fn source(&self) -> Cow<str> {
    Cow::Borrowed(&self.text)
  }
  fn rope(&self) -> Rope<'_> {
    Rope::from(&self.text)
  }
  fn buffer(&self) -> Cow<[u8]> {
    Cow::Borrowed(self.text.as_bytes())
  }
  fn size(&self) -> usize {
    self.text.len()
  }
  fn map(&self, _: &MapOptions) -> Option<SourceMap> {
    self.map.clone()
  }
  fn to_writer(&self, w: &mut dyn std::io::Write) -> std::io::Result<()> {
    w.write_all(self.text.as_bytes())
  }
}

impl StreamChunks for DefaultSource {
  fn stream_chunks<'a>(
    &'a self,
    options: &MapOptions,
    on_chunk: OnChunk<'_, 'a>,
    on_source: OnSource<'_, 'a>,
    on_name: OnName<'_, 'a>,
  ) -> GeneratedInfo {
    stream_chunks_default(
      self.text.as_str(),
      self.map.as_ref(),
      options,
      on_chunk,
      on_source,
      on_name,
    )
  }
}

// ------------------------------------------------------- scripted source

#[derive(Clone, Debug, PartialEq, Eq, Hash)]
pub enum ScriptEv {
  Source(u32, String, Option<String>),
  Name(u32, String),
  /// text, generated line, generated column, original (si, ol, oc, ni)
  Chunk(String, u32, u32, Option<(u32, u32, u32, Option<u32>)>),
}

/// Emits exactly the scripted events; `end` is the reported generated end.
#[derive(Clone, Debug, PartialEq, Eq, Hash)]
pub struct ScriptSource {
  pub text: String,
  pub events: Vec<ScriptEv>,
  pub end: (u32, u32),
}

impl Source for ScriptSource {
  fn source(&self) -> Cow<str> {
    Cow::Borrowed(&self.text)
  }
  fn rope(&self) -> Rope<'_> {
    Rope::from(&self.text)
  }
  fn buffer(&self) -> Cow<[u8]> {
    Cow::Borrowed(self.text.as_bytes())
  }
  fn size(&self) -> usize {
    self.text.len()
  }
  fn map(&self, _: &MapOptions) -> Option<SourceMap> {
    None
  }
  fn to_writer(&self, w: &mut dyn std::io::Write) -> std::io::Result<()> {
    w.write_all(self.text.as_bytes())
  }
}

impl StreamChunks for ScriptSource {
  fn stream_chunks<'a>(
    &'a self,
    _options: &MapOptions,
    on_chunk: OnChunk<'_, 'a>,
    on_source: OnSource<'_, 'a>,
    on_name: OnName<'_, 'a>,
  ) -> GeneratedInfo {
    for ev in &self.events {
      match ev {
        ScriptEv::Source(i, name, content) => on_source(
          *i,
          Cow::Borrowed(name.as_str()),
          content.as_ref().map(|c| Rope::from(c.as_str())),
        ),
        ScriptEv::Name(i, name) => on_name(*i, Cow::Borrowed(name.as_str())),
        ScriptEv::Chunk(text, gl, gc, orig) => on_chunk(
          Some(Rope::from(text.as_str())),
          Mapping {
            generated_line: *gl,
            generated_column: *gc,
            original: orig.map(|(si, ol, oc, ni)| OriginalLocation {
              source_index: si,
              original_line: ol,
              original_column: oc,
              name_index: ni,
            }),
          },
        ),
      }
    }
    GeneratedInfo {
      generated_line: self.end.0,
      generated_column: self.end.1,
    }
  }
}

// --------------------------------------------------------- yielding child

/// A user-defined child that hands control to the scheduler in the middle of
/// the enclosing source's stream call (raw text, no mappings).
#[derive(Clone, Debug, PartialEq, Eq, Hash)]
pub struct YieldSource {
  pub text: String,
}

impl Source for YieldSource {
  fn source(&self) -> Cow<str> {
    Cow::Borrowed(&self.text)
  }
  fn rope(&self) -> Rope<'_> {
    Rope::from(&self.text)
  }
  fn buffer(&self) -> Cow<[u8]> {
    Cow::Borrowed(self.text.as_bytes())
  }
  fn size(&self) -> usize {
    self.text.len()
  }
  fn map(&self, _: &MapOptions) -> Option<SourceMap> {
    None
  }
  fn to_writer(&self, w: &mut dyn std::io::Write) -> std::io::Result<()> {
    w.write_all(self.text.as_bytes())
  }
}

impl StreamChunks for YieldSource {
  fn stream_chunks<'a>(
    &'a self,
    options: &MapOptions,
    on_chunk: OnChunk<'_, 'a>,
    on_source: OnSource<'_, 'a>,
    on_name: OnName<'_, 'a>,
  ) -> GeneratedInfo {
    crate::sched::on_point("user.yield", 0, 0);
    stream_chunks_default(self.text.as_str(), None, options, on_chunk, on_source, on_name)
  }
}
