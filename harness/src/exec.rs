//! Executes program steps against the real crate and writes down what was
//! observed. No property is decided here.

use std::{
  borrow::Cow,
  cell::RefCell,
  hash::{Hash, Hasher},
  io::Write,
  panic::{catch_unwind, AssertUnwindSafe},
};

use rspack_sources::{MapOptions, Mapping, OriginalLocation, Rope, Source, SourceMap};
use serde_json::{json, Value};

use crate::{
  build::{add_child, apply_replacement, build, Val},
  custom::options,
};

pub const BIG: u64 = 2147483647;

thread_local! {
  pub static LAST_PANIC: RefCell<String> = const { RefCell::new(String::new()) };
  /// site -> (times reached, times the precondition was false), since the
  /// last drain
  pub static PROBES: RefCell<std::collections::BTreeMap<&'static str, (u64, u64)>> =
    const { RefCell::new(std::collections::BTreeMap::new()) };
}

/// what the precondition probes (feature `verif` of the crate) saw since the
/// last call
pub fn drain_probes() -> Value {
  PROBES.with(|p| {
    let mut p = p.borrow_mut();
    let sites: Vec<Value> = p.iter().map(|(k, v)| json!([k, v.0])).collect();
    let failed: Vec<Value> = p.iter().filter(|(_, v)| v.1 > 0).map(|(k, _)| json!(k)).collect();
    p.clear();
    json!({"sites": sites, "failed": failed})
  })
}

/// The observer the harness installs into the crate's hooks.
pub struct HarnessObserver;

impl rspack_sources::verif::Observer for HarnessObserver {
  fn point(&self, id: &'static str, obj: usize, arg: usize) {
    crate::sched::on_point(id, obj, arg);
  }
  fn probe(&self, site: &'static str, ok: bool) {
    PROBES.with(|p| {
      let mut p = p.borrow_mut();
      let e = p.entry(site).or_insert((0, 0));
      e.0 += 1;
      if !ok {
        e.1 += 1;
        // the unsafe operation that follows may take the process down:
        // leave a note that survives it
        if let Ok(path) = std::env::var("RSV_SIDE") {
          if let Ok(mut f) = std::fs::OpenOptions::new().create(true).append(true).open(path) {
            let _ = writeln!(f, "{}", site);
          }
        }
      }
    });
  }
}

fn num(n: u64, big: &mut bool) -> Value {
  if n >= BIG {
    *big = true;
    json!(BIG)
  } else {
    json!(n)
  }
}

pub fn bytes_json(b: &[u8]) -> Value {
  Value::Array(b.iter().map(|x| json!(*x)).collect())
}

pub fn map_json(m: &SourceMap) -> Value {
  let strs = |v: &[String]| -> Value {
    Value::Array(v.iter().map(|s| bytes_json(s.as_bytes())).collect())
  };
  json!({
    "m": bytes_json(m.mappings().as_bytes()),
    "sources": strs(m.sources()),
    "contents": strs(m.sources_content()),
    "names": strs(m.names()),
    "root": m.source_root().map(|r| vec![bytes_json(r.as_bytes())]).unwrap_or_default(),
    "file": m.file().map(|r| vec![bytes_json(r.as_bytes())]).unwrap_or_default(),
    "dbg": m.get_debug_id().map(|r| vec![bytes_json(r.as_bytes())]).unwrap_or_default(),
  })
}

/// [[gl, gc, si, ol, oc, ni], ...]; si < 0 = no original, ni < 0 = no name
pub fn mappings_of(v: &Value) -> Vec<Mapping> {
  v.as_array()
    .map(|a| {
      a.iter()
        .map(|s| {
          let g = |i: usize| s[i].as_i64().unwrap_or(0);
          Mapping {
            generated_line: g(0) as u32,
            generated_column: g(1) as u32,
            original: (g(2) >= 0).then(|| OriginalLocation {
              source_index: g(2) as u32,
              original_line: g(3) as u32,
              original_column: g(4) as u32,
              name_index: (g(5) >= 0).then(|| g(5) as u32),
            }),
          }
        })
        .collect()
    })
    .unwrap_or_default()
}

pub fn segs_json(ms: &[Mapping], big: &mut bool) -> Value {
  Value::Array(
    ms.iter()
      .map(|m| match &m.original {
        Some(o) => json!([
          num(m.generated_line as u64, big), num(m.generated_column as u64, big),
          num(o.source_index as u64, big), num(o.original_line as u64, big),
          num(o.original_column as u64, big),
          o.name_index.map(|n| num(n as u64, big)).unwrap_or(json!(-1))]),
        None => json!([num(m.generated_line as u64, big), num(m.generated_column as u64, big), -1, 0, 0, -1]),
      })
      .collect(),
  )
}

/// The parsed document as the TLA+ side reads it: every field either absent
/// (`[]`) or present (`[value]`), strings as byte arrays, null entries as
/// the marker `{"null": true}`.
fn doc_json(d: &Value) -> Value {
  let s = |v: &Value| -> Value {
    match v {
      Value::String(s) => bytes_json(s.as_bytes()),
      Value::Null => json!({"null": true}),
      other => json!({"other": other.to_string()}),
    }
  };
  let field = |name: &str| -> Value {
    match d.get(name) {
      None => json!([]),
      Some(Value::Array(a)) => json!([a.iter().map(s).collect::<Vec<_>>()]),
      Some(Value::Number(n)) => json!([n.as_i64().unwrap_or(-1)]),
      Some(v) => json!([s(v)]),
    }
  };
  let known = ["version", "file", "sources", "sourcesContent", "names", "mappings", "sourceRoot", "debugId"];
  let extra = d
    .as_object()
    .map(|o| o.keys().filter(|k| !known.contains(&k.as_str())).count())
    .unwrap_or(0);
  json!({
    "is_object": d.is_object(),
    "version": field("version"), "file": field("file"), "sources": field("sources"),
    "sourcesContent": field("sourcesContent"), "names": field("names"),
    "mappings": field("mappings"), "sourceRoot": field("sourceRoot"), "debugId": field("debugId"),
    "extra": extra,
  })
}

/// fields: [[key, kind, value]...] in document order; kind "str" (byte
/// array), "strs" (array of 0/1-element arrays: `[]` = null entry,
/// `[bytes]` = string), "num", "null" (value ignored)
fn write_doc(fields: &Value) -> String {
  let esc = |bytes: &Value| -> String {
    let st = String::from_utf8_lossy(&crate::build::bytes_of(bytes)).to_string();
    let mut out = String::from("\"");
    for ch in st.chars() {
      match ch {
        '"' => out.push_str("\\\""),
        '\\' => out.push_str("\\\\"),
        c if (c as u32) < 0x20 || (c as u32) > 0x7e => {
          let mut buf = [0u16; 2];
          for u in c.encode_utf16(&mut buf) {
            out.push_str(&format!("\\u{:04x}", u));
          }
        }
        c => out.push(c),
      }
    }
    out.push('"');
    out
  };
  let mut parts = vec![];
  for f in fields.as_array().map(|a| a.as_slice()).unwrap_or(&[]) {
    let key = f[0].as_str().unwrap_or("");
    let val = match f[1].as_str().unwrap_or("") {
      "str" => esc(&f[2]),
      "strs" => {
        let items: Vec<String> = f[2]
          .as_array()
          .map(|a| {
            a.iter()
              .map(|x| match crate::build::opt(x) {
                Some(bytes) => esc(bytes),
                None => "null".to_string(),
              })
              .collect()
          })
          .unwrap_or_default();
        format!("[{}]", items.join(","))
      }
      "num" => f[2].to_string(),
      _ => "null".to_string(),
    };
    parts.push(format!("\"{}\":{}", key, val));
  }
  format!("{{{}}}", parts.join(","))
}

pub fn hash_of_tree(tree: &Value) -> String {
  let regs: Vec<Option<Val>> = vec![None; 16];
  let v = build(tree, &regs);
  let mut h = twox_hash::XxHash64::default();
  v.as_source().hash(&mut h);
  format!("{:016x}", h.finish())
}

enum Ev<'a> {
  S(u32, Cow<'a, str>, Option<Rope<'a>>),
  N(u32, Cow<'a, str>),
  C(Option<Rope<'a>>, Mapping),
}

/// Streams `src`, keeping every borrowed chunk, name and content until the
/// stream call has returned, and only then renders them.
pub fn observe_stream(src: &dyn Source, opts: &MapOptions) -> Value {
  let evs: RefCell<Vec<Ev>> = RefCell::new(Vec::new());
  let end = src.stream_chunks(
    opts,
    &mut |chunk, mapping| evs.borrow_mut().push(Ev::C(chunk, mapping)),
    &mut |i, name, content| evs.borrow_mut().push(Ev::S(i, name, content)),
    &mut |i, name| evs.borrow_mut().push(Ev::N(i, name)),
  );
  let mut big = false;
  let list: Vec<Value> = evs
    .into_inner()
    .into_iter()
    .map(|e| match e {
      Ev::S(i, name, content) => json!({
        "t": "S", "i": num(i as u64, &mut big),
        "name": bytes_json(name.as_bytes()),
        "c": content.map(|c| vec![bytes_json(c.to_string().as_bytes())]).unwrap_or_default(),
      }),
      Ev::N(i, name) => json!({
        "t": "N", "i": num(i as u64, &mut big),
        "name": bytes_json(name.as_bytes()),
      }),
      Ev::C(chunk, m) => json!({
        "t": "C",
        "x": chunk.map(|c| vec![bytes_json(c.to_string().as_bytes())]).unwrap_or_default(),
        "gl": num(m.generated_line as u64, &mut big),
        "gc": num(m.generated_column as u64, &mut big),
        "o": m.original.map(|o| vec![
          num(o.source_index as u64, &mut big),
          num(o.original_line as u64, &mut big),
          num(o.original_column as u64, &mut big),
          o.name_index.map(|n| num(n as u64, &mut big)).unwrap_or(json!(-1)),
        ]).unwrap_or_default(),
      }),
    })
    .collect();
  json!({
    "ev": list,
    "end": [num(end.generated_line as u64, &mut big), num(end.generated_column as u64, &mut big)],
    "big": big,
  })
}

/// A writer that accepts `budget` bytes and then misbehaves as `kind` says.
struct FaultyWriter {
  kind: String,
  budget: usize,
  written: Vec<u8>,
  fired: bool,
  /// kind "script": what the next calls answer - n > 0: takes at most n
  /// bytes, 0: Ok(0), -1: a hard error, -2: Interrupted; afterwards everything
  /// offered is taken
  script: Vec<i64>,
  /// hard errors / Ok(0) answers given so far, and calls received after the
  /// first of them
  hard: usize,
  after: usize,
}

impl FaultyWriter {
  fn new(kind: &str, budget: usize) -> Self {
    FaultyWriter {
      kind: kind.to_string(),
      budget,
      written: Vec::new(),
      fired: false,
      script: Vec::new(),
      hard: 0,
      after: 0,
    }
  }
}

impl Write for FaultyWriter {
  fn write(&mut self, buf: &[u8]) -> std::io::Result<usize> {
    if buf.is_empty() {
      return Ok(0);
    }
    if self.kind == "script" {
      if self.hard > 0 {
        self.after += 1;
      }
      let next = if self.script.is_empty() { i64::MAX } else { self.script.remove(0) };
      return match next {
        0 => {
          self.hard += 1;
          Ok(0)
        }
        -1 => {
          self.hard += 1;
          Err(std::io::Error::new(std::io::ErrorKind::Other, "scripted"))
        }
        -2 => Err(std::io::Error::new(
          std::io::ErrorKind::Interrupted,
          "interrupted",
        )),
        n => {
          let n = (n as usize).min(buf.len());
          self.written.extend_from_slice(&buf[..n]);
          Ok(n)
        }
      };
    }
    if self.kind == "chunky" {
      self.written.push(buf[0]);
      return Ok(1);
    }
    if self.kind == "chunk7" {
      // a writer that takes at most 7 bytes per call (pipe, compressor)
      let n = buf.len().min(7);
      self.written.extend_from_slice(&buf[..n]);
      return Ok(n);
    }
    // "flaky": refuses exactly one call (a real error, not Interrupted) once
    // its budget is used up, and accepts everything offered afterwards
    if self.kind == "ok"
      || ((self.kind == "intr" || self.kind == "flaky") && self.fired)
    {
      self.written.extend_from_slice(buf);
      return Ok(buf.len());
    }
    let room = self.budget.saturating_sub(self.written.len());
    if room > 0 {
      let n = room.min(buf.len());
      self.written.extend_from_slice(&buf[..n]);
      return Ok(n);
    }
    self.fired = true;
    match self.kind.as_str() {
      "zero" => Ok(0),
      "intr" => Err(std::io::Error::new(
        std::io::ErrorKind::Interrupted,
        "interrupted",
      )),
      _ => Err(std::io::Error::new(std::io::ErrorKind::Other, "budget")),
    }
  }
  fn flush(&mut self) -> std::io::Result<()> {
    Ok(())
  }
}

/// A reader that hands out at most `step` bytes per call and reports
/// `Interrupted` once before its first byte when `intr` is set - what a
/// pipe or a socket does, and what `Read` allows.
struct SlowReader<'a> {
  data: &'a [u8],
  step: usize,
  intr: bool,
}

impl std::io::Read for SlowReader<'_> {
  fn read(&mut self, buf: &mut [u8]) -> std::io::Result<usize> {
    if self.intr {
      self.intr = false;
      return Err(std::io::Error::new(
        std::io::ErrorKind::Interrupted,
        "interrupted",
      ));
    }
    let n = self.step.min(buf.len()).min(self.data.len());
    buf[..n].copy_from_slice(&self.data[..n]);
    self.data = &self.data[n..];
    Ok(n)
  }
}

/// Records everything fed to the hasher, in order.
#[derive(Default)]
struct RecordingHasher(Vec<u8>);
impl Hasher for RecordingHasher {
  fn finish(&self) -> u64 {
    0
  }
  fn write(&mut self, bytes: &[u8]) {
    self.0.extend_from_slice(bytes);
  }
}

/// Records the Hasher calls themselves: [kind, number, bytes, []] per call
/// (the shape of the tokens of spec/HashM.tla). The value of a `write_u64`
/// (a real hash) is not recorded.
#[derive(Default)]
struct FeedHasher(Vec<Value>);
impl Hasher for FeedHasher {
  fn finish(&self) -> u64 {
    0
  }
  fn write(&mut self, bytes: &[u8]) {
    self.0.push(json!(["w", 0, bytes_json(bytes), []]));
  }
  fn write_u8(&mut self, i: u8) {
    self.0.push(json!(["u8", i, [], []]));
  }
  fn write_u16(&mut self, i: u16) {
    self.0.push(json!(["u16", i, [], []]));
  }
  fn write_u32(&mut self, i: u32) {
    self.0.push(json!(["u32", i, [], []]));
  }
  fn write_u64(&mut self, _i: u64) {
    self.0.push(json!(["u64", 0, [], []]));
  }
  fn write_usize(&mut self, i: usize) {
    self.0.push(json!(["usize", i, [], []]));
  }
  fn write_isize(&mut self, i: isize) {
    self.0.push(json!(["isize", i, [], []]));
  }
  fn write_i32(&mut self, i: i32) {
    self.0.push(json!(["i32", i, [], []]));
  }
  fn write_i64(&mut self, i: i64) {
    self.0.push(json!(["i64", i, [], []]));
  }
}

pub struct Machine {
  pub regs: Vec<Option<Val>>,
  /// registers shared (read-only) between the threads of a concurrent
  /// program; a thread's own registers shadow them
  pub shared: Option<std::sync::Arc<Vec<Option<Val>>>>,
}

impl Machine {
  pub fn new() -> Self {
    Self {
      regs: vec![None; 16],
      shared: None,
    }
  }

  pub fn with_shared(shared: std::sync::Arc<Vec<Option<Val>>>) -> Self {
    Self {
      regs: vec![None; 16],
      shared: Some(shared),
    }
  }

  /// Address of the ReplaceSource a `clone` step is about to clone (what the
  /// crate's schedule points report as their object), 0 for anything else.
  pub fn clone_target(&self, step: &Value) -> usize {
    if step["op"].as_str() != Some("clone") {
      return 0;
    }
    let r = step["src"].as_u64().unwrap_or(0) as usize;
    let v = self.regs.get(r).and_then(|v| v.as_ref()).or_else(|| {
      self.shared.as_ref().and_then(|s| s.get(r)).and_then(|v| v.as_ref())
    });
    match v {
      Some(Val::Replace(src)) => src as *const _ as *const u8 as usize,
      _ => 0,
    }
  }

  fn reg(&self, step: &Value, key: &str) -> &Val {
    let r = step[key].as_u64().expect("register index") as usize;
    if let Some(v) = self.regs[r].as_ref() {
      return v;
    }
    self
      .shared
      .as_ref()
      .and_then(|s| s[r].as_ref())
      .expect("empty register")
  }

  fn run(&mut self, step: &Value) -> Value {
    let op = step["op"].as_str().expect("op");
    match op {
      "build" => {
        let v = build(&step["tree"], &self.regs);
        let dst = step["dst"].as_u64().unwrap() as usize;
        self.regs[dst] = Some(v);
        json!({})
      }
      "clone" => {
        let v = self.reg(step, "src").clone();
        let dst = step["dst"].as_u64().unwrap() as usize;
        self.regs[dst] = Some(v);
        json!({})
      }
      "replace" => {
        let r = step["r"].as_u64().unwrap() as usize;
        match self.regs[r].as_mut() {
          Some(Val::Replace(src)) => apply_replacement(src, step),
          _ => panic!("HARNESS: replace on a non-ReplaceSource register"),
        }
        json!({})
      }
      "add" => {
        let child = build(&step["tree"], &self.regs);
        let r = step["r"].as_u64().unwrap() as usize;
        match self.regs[r].as_mut() {
          Some(Val::Concat(c)) => add_child(c, child),
          _ => panic!("HARNESS: add on a non-ConcatSource register"),
        }
        json!({})
      }
      "law" => json!({}),
      "hash_tree" => {
        // hash a freshly built tree here, in another thread and in another
        // process
        let tree = step["tree"].clone();
        let local = hash_of_tree(&tree);
        let t2 = tree.clone();
        let threaded = std::thread::spawn(move || hash_of_tree(&t2)).join().unwrap_or_default();
        let exe = std::env::current_exe().unwrap();
        let mut child = std::process::Command::new(exe)
          .arg("hashproc")
          .stdin(std::process::Stdio::piped())
          .stdout(std::process::Stdio::piped())
          .spawn()
          .expect("spawn hashproc");
        child.stdin.take().unwrap().write_all(tree.to_string().as_bytes()).unwrap();
        let out = child.wait_with_output().unwrap();
        let other = String::from_utf8_lossy(&out.stdout).trim().to_string();
        json!({"local": local, "thread": threaded, "process": other})
      }
      "parse" => {
        // one of the three parser entry points over raw bytes
        let bytes = crate::build::bytes_of(&step["b"]);
        let res = match step["via"].as_str().unwrap_or("slice") {
          "json" => match std::str::from_utf8(&bytes) {
            Ok(s) => SourceMap::from_json(s),
            Err(_) => SourceMap::from_slice(&bytes),
          },
          "reader" => SourceMap::from_reader(&bytes[..]),
          "reader1" => SourceMap::from_reader(SlowReader { data: &bytes[..], step: 1, intr: false }),
          "reader7" => SourceMap::from_reader(SlowReader { data: &bytes[..], step: 7, intr: true }),
          _ => SourceMap::from_slice(&bytes),
        };
        match res {
          Ok(m) => json!({"res": "ok", "map": [map_json(&m)]}),
          Err(_) => json!({"res": "err", "map": []}),
        }
      }
      "to_json" => {
        // serialise a SourceMap value, read the document with an independent
        // parser (serde_json) and parse it back through all entry points
        let m = crate::build::source_map_of(&step["map"]);
        let text = m.clone().to_json();
        let mut w: Vec<u8> = vec![];
        let wres = m.clone().to_writer(&mut w);
        // the same value through writers that take less than they are offered
        let faulty = |kind: &str, budget: usize| {
          let mut fw = FaultyWriter::new(kind, budget);
          let r = m.clone().to_writer(&mut fw);
          json!({"ok": r.is_ok(), "w": bytes_json(&fw.written)})
        };
        // writers that answer their first calls as TLC scripted them
        let scripted: Vec<Value> = step["scripts"]
          .as_array()
          .map(|a| {
            a.iter()
              .map(|sc| {
                let mut fw = FaultyWriter::new("script", 0);
                fw.script = sc.as_array().map(|x| x.iter().map(|v| v.as_i64().unwrap_or(1)).collect()).unwrap_or_default();
                let r = m.clone().to_writer(&mut fw);
                json!({"ok": r.is_ok(), "w": bytes_json(&fw.written), "hard": fw.hard, "after": fw.after})
              })
              .collect()
          })
          .unwrap_or_default();
        let half = text.as_ref().map(|t| t.len() / 2).unwrap_or(0);
        match text {
          Ok(text) => {
            let doc: Result<Value, _> = serde_json::from_str(&text);
            let back = |r: rspack_sources::Result<SourceMap>| match r {
              Ok(m) => vec![map_json(&m)],
              Err(_) => vec![],
            };
            json!({
              "res": "ok",
              "json": bytes_json(text.as_bytes()),
              "writer_ok": wres.is_ok(),
              "writer": bytes_json(&w),
              "w_chunky": faulty("chunky", 0),
              "w_chunk7": faulty("chunk7", 0),
              "w_intr": faulty("intr", half),
              "w_zero": faulty("zero", half),
              "w_err": faulty("err", half),
              "w_scripts": scripted,
              "doc": doc.map(|d| vec![doc_json(&d)]).unwrap_or_default(),
              "back_json": back(SourceMap::from_json(&text)),
              "back_slice": back(SourceMap::from_slice(text.as_bytes())),
              "back_reader": back(SourceMap::from_reader(text.as_bytes())),
              "back_reader1": back(SourceMap::from_reader(SlowReader { data: text.as_bytes(), step: 1, intr: false })),
              "back_reader7": back(SourceMap::from_reader(SlowReader { data: text.as_bytes(), step: 7, intr: true })),
            })
          }
          Err(_) => json!({"res": "err"}),
        }
      }
      "parse_doc" => {
        // a document written by the harness (serde_json, every non-ASCII
        // character escaped) from a structured description, then parsed by
        // the crate through all three entry points
        let text = write_doc(&step["fields"]);
        let back = |r: rspack_sources::Result<SourceMap>| match r {
          Ok(m) => json!({"res": "ok", "map": [map_json(&m)]}),
          Err(_) => json!({"res": "err", "map": []}),
        };
        json!({
          "text": bytes_json(text.as_bytes()),
          "json": back(SourceMap::from_json(&text)),
          "slice": back(SourceMap::from_slice(text.as_bytes())),
          "reader": back(SourceMap::from_reader(text.as_bytes())),
          "reader1": back(SourceMap::from_reader(SlowReader { data: text.as_bytes(), step: 1, intr: false })),
          "reader7": back(SourceMap::from_reader(SlowReader { data: text.as_bytes(), step: 7, intr: true })),
        })
      }
      "codec" => {
        // encode -> decode -> encode again, all with the crate's own codec
        let ms = mappings_of(&step["segs"]);
        let enc = rspack_sources::encode_mappings(ms.into_iter());
        let map = SourceMap::new(enc.clone(), Vec::<String>::new(), Vec::<String>::new(), Vec::<String>::new());
        let dec: Vec<Mapping> = rspack_sources::decode_mappings(&map).collect();
        let re = rspack_sources::encode_mappings(dec.clone().into_iter());
        let mut big = false;
        json!({"m": bytes_json(enc.as_bytes()), "dec": segs_json(&dec, &mut big),
               "re": bytes_json(re.as_bytes()), "big": big})
      }
      "codec_wide" => {
        // the codec over the whole u32 range: every field travels as a pair
        // [hi, lo] of 16-bit halves (TLC integers stop below 2^31)
        let w = |v: &Value| -> u32 {
          ((v[0].as_u64().unwrap_or(0) << 16) | v[1].as_u64().unwrap_or(0)) as u32
        };
        let pair = |x: u32| json!([x >> 16, x & 0xffff]);
        let ms: Vec<Mapping> = step["segs"]
          .as_array()
          .map(|a| {
            a.iter()
              .map(|s| Mapping {
                generated_line: s["gl"].as_u64().unwrap_or(1) as u32,
                generated_column: w(&s["gc"]),
                original: Some(OriginalLocation {
                  source_index: w(&s["si"]),
                  original_line: w(&s["ol"]),
                  original_column: w(&s["oc"]),
                  name_index: s["ni"].as_array().and_then(|a| a.first()).map(w),
                }),
              })
              .collect()
          })
          .unwrap_or_default();
        let wide_json = |ms: &[Mapping]| -> Value {
          Value::Array(
            ms.iter()
              .map(|m| match &m.original {
                Some(o) => json!({
                  "gl": m.generated_line, "gc": pair(m.generated_column),
                  "si": pair(o.source_index), "ol": pair(o.original_line),
                  "oc": pair(o.original_column),
                  "ni": o.name_index.map(|n| vec![pair(n)]).unwrap_or_default(),
                }),
                None => json!({"gl": m.generated_line, "gc": pair(m.generated_column), "unmapped": true}),
              })
              .collect(),
          )
        };
        let enc = rspack_sources::encode_mappings(ms.clone().into_iter());
        let map = SourceMap::new(enc.clone(), Vec::<String>::new(), Vec::<String>::new(), Vec::<String>::new());
        let dec: Vec<Mapping> = rspack_sources::decode_mappings(&map).collect();
        let re = rspack_sources::encode_mappings(dec.clone().into_iter());
        // the line-only encoder, as in lines_encode
        let mut events = vec![];
        for m in &ms {
          events.push(crate::custom::ScriptEv::Chunk(
            String::new(),
            m.generated_line,
            m.generated_column,
            m.original.as_ref().map(|o| (o.source_index, o.original_line, o.original_column, o.name_index)),
          ));
        }
        let last = ms.last().map(|m| m.generated_line).unwrap_or(1);
        let child = crate::custom::ScriptSource { text: String::new(), events, end: (last, 1) };
        let concat = rspack_sources::ConcatSource::new([child]);
        let lm = concat.map(&MapOptions::new(false));
        json!({"m": bytes_json(enc.as_bytes()), "dec": wide_json(&dec), "re": bytes_json(re.as_bytes()),
               "lm": lm.as_ref().map(|m| vec![bytes_json(m.mappings().as_bytes())]).unwrap_or_default()})
      }
      "decode" => {
        let text = crate::build::string_of(&step["m"]);
        let map = SourceMap::new(text, Vec::<String>::new(), Vec::<String>::new(), Vec::<String>::new());
        let dec: Vec<Mapping> = map.decoded_mappings().collect();
        let mut big = false;
        json!({"dec": segs_json(&dec, &mut big), "big": big})
      }
      "lines_encode" => {
        // the line-only encoder, reached through map(columns = false) of a
        // one-child ConcatSource over a scripted child
        let ms = mappings_of(&step["segs"]);
        let mut events = vec![];
        for m in &ms {
          events.push(crate::custom::ScriptEv::Chunk(
            String::new(),
            m.generated_line,
            m.generated_column,
            m.original.as_ref().map(|o| (o.source_index, o.original_line, o.original_column, o.name_index)),
          ));
        }
        let last = ms.last().map(|m| m.generated_line).unwrap_or(1);
        let child = crate::custom::ScriptSource { text: String::new(), events, end: (last, 1) };
        let concat = rspack_sources::ConcatSource::new([child]);
        let m = concat.map(&MapOptions::new(false));
        json!({"m": m.as_ref().map(|m| vec![bytes_json(m.mappings().as_bytes())]).unwrap_or_default()})
      }
      "vlq_batch" => {
        // every original-column delta d in lo..=hi as the 4th field of a
        // second segment; base keeps the running value non-negative
        let lo = step["lo"].as_i64().unwrap();
        let hi = step["hi"].as_i64().unwrap();
        let base = step["base"].as_i64().unwrap();
        let first = Mapping { generated_line: 1, generated_column: 0, original: Some(OriginalLocation {
          source_index: 0, original_line: 1, original_column: base as u32, name_index: None }) };
        let prefix = rspack_sources::encode_mappings(vec![first.clone()].into_iter()).len() + 4;
        let mut digits = vec![];
        let mut decoded = vec![];
        for d in lo..=hi {
          let second = Mapping { generated_line: 1, generated_column: 1, original: Some(OriginalLocation {
            source_index: 0, original_line: 1, original_column: (base + d) as u32, name_index: None }) };
          let enc = rspack_sources::encode_mappings(vec![first.clone(), second].into_iter());
          digits.push(bytes_json(&enc.as_bytes()[prefix..]));
          let map = SourceMap::new(enc, Vec::<String>::new(), Vec::<String>::new(), Vec::<String>::new());
          let dec: Vec<Mapping> = map.decoded_mappings().collect();
          let oc = dec.get(1).and_then(|m| m.original.as_ref()).map(|o| o.original_column as i64).unwrap_or(-1);
          decoded.push(json!(oc));
        }
        json!({"digits": digits, "oc": decoded})
      }
      "source" => {
        json!({"t": bytes_json(self.reg(step, "r").as_source().source().as_bytes())})
      }
      "buffer" => {
        json!({"b": bytes_json(&self.reg(step, "r").as_source().buffer())})
      }
      "size" => json!({"n": self.reg(step, "r").as_source().size()}),
      "rope" => {
        let src = self.reg(step, "r").as_source();
        let rope = src.rope();
        json!({
          "t": bytes_json(rope.to_string().as_bytes()),
          "b": bytes_json(&rope.to_bytes()),
          "n": rope.len(),
        })
      }
      "writer" => {
        let mut w = FaultyWriter::new(
          step["kind"].as_str().unwrap_or("ok"),
          step["k"].as_u64().unwrap_or(0) as usize,
        );
        w.script = step["script"].as_array().map(|x| x.iter().map(|v| v.as_i64().unwrap_or(1)).collect()).unwrap_or_default();
        let res = self.reg(step, "r").as_source().to_writer(&mut w);
        json!({
          "res": if res.is_ok() { "ok" } else { "err" },
          "w": bytes_json(&w.written),
          "hard": w.hard,
          "after": w.after,
        })
      }
      "map" => {
        let columns = step["columns"].as_bool().unwrap_or(true);
        let m = self
          .reg(step, "r")
          .as_source()
          .map(&MapOptions::new(columns));
        json!({"map": m.as_ref().map(|m| vec![map_json(m)]).unwrap_or_default()})
      }
      "stream" => {
        let columns = step["columns"].as_bool().unwrap_or(true);
        let fin = step["final"].as_bool().unwrap_or(false);
        let opts = options(columns, fin);
        observe_stream(self.reg(step, "r").as_source(), &opts)
      }
      "hash" => {
        let src = self.reg(step, "r").as_source();
        match step["h"].as_str().unwrap_or("twox") {
          "fx" => {
            let mut h = rustc_hash::FxHasher::default();
            src.hash(&mut h);
            json!({"hex": format!("{:016x}", h.finish())})
          }
          "rec" => {
            let mut h = RecordingHasher::default();
            src.hash(&mut h);
            json!({"pre": bytes_json(&h.0)})
          }
          "feed" => {
            let mut h = FeedHasher::default();
            src.hash(&mut h);
            json!({"feed": h.0})
          }
          "update" => {
            let mut h = twox_hash::XxHash64::default();
            src.update_hash(&mut h);
            json!({"hex": format!("{:016x}", h.finish())})
          }
          _ => {
            let mut h = twox_hash::XxHash64::default();
            src.hash(&mut h);
            json!({"hex": format!("{:016x}", h.finish())})
          }
        }
      }
      "eq" => {
        let a = self.reg(step, "a");
        let b = self.reg(step, "b");
        let typed = match (a, b) {
          (Val::Raw(x), Val::Raw(y)) => Some(x == y),
          (Val::RawStr(x), Val::RawStr(y)) => Some(x == y),
          (Val::RawBuf(x), Val::RawBuf(y)) => Some(x == y),
          (Val::Orig(x), Val::Orig(y)) => Some(x == y),
          (Val::Sms(x), Val::Sms(y)) => Some(x == y),
          (Val::Concat(x), Val::Concat(y)) => Some(x == y),
          (Val::Replace(x), Val::Replace(y)) => Some(x == y),
          (Val::Cached(x), Val::Cached(y)) => Some(x == y),
          (Val::Boxed(x), Val::Boxed(y)) => Some(x == y),
          _ => None,
        };
        let dynamic = a.as_source() == b.as_source();
        json!({
          "eq": dynamic,
          "typed": typed.map(|t| vec![t]).unwrap_or_default(),
        })
      }
      "debug" => {
        let s = format!("{:?}", self.reg(step, "r").as_source());
        json!({"n": s.len()})
      }
      other => panic!("HARNESS: unknown op {other}"),
    }
  }

  /// Runs one step; a panic inside the crate is data, not an error.
  pub fn step(&mut self, pid: u64, step: &Value) -> Value {
    let _ = drain_probes();
    let res = catch_unwind(AssertUnwindSafe(|| self.run(step)));
    let mut rec = step.clone();
    let obj = rec.as_object_mut().unwrap();
    obj.insert("pid".into(), json!(pid));
    obj.insert("probes".into(), drain_probes());
    match res {
      Ok(out) => {
        obj.insert("oc".into(), json!("ok"));
        obj.insert("out".into(), out);
      }
      Err(e) => {
        let msg = e
          .downcast_ref::<String>()
          .cloned()
          .or_else(|| e.downcast_ref::<&str>().map(|s| s.to_string()))
          .unwrap_or_default();
        let oc = if msg.starts_with("HARNESS") || msg.contains("program text") {
          "harness"
        } else {
          "panic"
        };
        obj.insert("oc".into(), json!(oc));
        obj.insert("out".into(), json!({}));
        obj.insert("msg".into(), json!(msg.chars().take(200).collect::<String>()));
        obj.insert("loc".into(), json!(LAST_PANIC.with(|c| c.borrow().clone())));
      }
    }
    // the lazily sorted index of a ReplaceSource held in the register the
    // step worked on, as it is after the step (hook verif_index; IndexM)
    let reg = step
      .get("r")
      .or_else(|| step.get("dst"))
      .and_then(|v| v.as_u64())
      .map(|v| v as usize);
    if let Some(Some(Val::Replace(src))) = reg.and_then(|r| self.regs.get(r)) {
      let (flag, idx) = src.verif_index();
      obj.insert("ix".into(), json!({"flag": flag, "idx": idx}));
    }
    rec
  }
}
