//! Rope programs (property C16 / C19): a program is a pair of rope
//! expressions over an arena of string pieces; every observer of the public
//! Rope API is applied and written down. Nothing is judged here.
//!
//! expression: ["new"] | ["from", p] | ["from_iter", [p...]] | ["add", e, p]
//!           | ["append", e, e] | ["slice", e, a, b] | ["line", e, k]

use std::{
  hash::{Hash, Hasher},
  panic::{catch_unwind, AssertUnwindSafe},
};

use rspack_sources::Rope;
use serde_json::{json, Value};

use crate::exec::{bytes_json, LAST_PANIC};

fn eval<'a>(e: &Value, arena: &'a [String]) -> Option<Rope<'a>> {
  let piece = |v: &Value| -> &'a str { arena[v.as_u64().unwrap() as usize].as_str() };
  match e[0].as_str().unwrap() {
    "new" => Some(Rope::new()),
    "from" => Some(Rope::from(piece(&e[1]))),
    "from_iter" => Some(
      e[1]
        .as_array()
        .unwrap()
        .iter()
        .map(piece)
        .collect::<Rope<'a>>(),
    ),
    "add" => {
      let mut r = eval(&e[1], arena)?;
      r.add(piece(&e[2]));
      Some(r)
    }
    "append" => {
      let mut r = eval(&e[1], arena)?;
      let o = eval(&e[2], arena)?;
      r.append(o);
      Some(r)
    }
    "slice" => {
      let r = eval(&e[1], arena)?;
      let a = e[2].as_u64().unwrap() as usize;
      let b = e[3].as_u64().unwrap() as usize;
      r.get_byte_slice(a..b)
    }
    "line" => {
      let r = eval(&e[1], arena)?;
      let k = e[2].as_u64().unwrap() as usize;
      let line = r.lines().nth(k);
      line
    }
    other => panic!("HARNESS: unknown rope op {other}"),
  }
}

/// every unary observer; each one guarded on its own so that one panic does
/// not hide the other answers
fn observe(r: &Rope) -> Value {
  let mut out = serde_json::Map::new();
  let mut panics = vec![];
  macro_rules! guard {
    ($name:expr, $body:expr) => {
      match catch_unwind(AssertUnwindSafe(|| $body)) {
        Ok(v) => {
          out.insert($name.to_string(), v);
        }
        Err(_) => {
          panics.push(json!([$name, LAST_PANIC.with(|c| c.borrow().clone())]));
          out.insert($name.to_string(), json!("panic"));
        }
      }
    };
  }
  // the representation itself (feature verif): one-string form or the pieces
  // with their start offsets
  guard!("repr", match r.verif_pieces() {
    None => json!({"full": false, "ps": [[bytes_json(r.to_string().as_bytes()), 0]]}),
    Some(ps) => json!({"full": true,
                       "ps": ps.iter().map(|(t, o)| json!([bytes_json(t.as_bytes()), o])).collect::<Vec<_>>()}),
  });
  guard!("len", json!(r.len()));
  guard!("is_empty", json!(r.is_empty()));
  guard!("to_string", bytes_json(r.to_string().as_bytes()));
  guard!("to_bytes", bytes_json(&r.to_bytes()));
  guard!("bytes", {
    let n = r.len();
    let v: Vec<Value> = (0..n).map(|i| json!(r.get_byte(i).map(|b| b as i64).unwrap_or(-1))).collect();
    json!(v)
  });
  guard!("byte_past_end", json!(r.get_byte(r.len()).map(|b| b as i64).unwrap_or(-1)));
  guard!("char_indices", {
    let v: Vec<Value> = r.char_indices().map(|(i, c)| json!([i, c as u32])).collect();
    json!(v)
  });
  guard!("lines", {
    let v: Vec<Value> = r.lines().map(|l| bytes_json(l.to_string().as_bytes())).collect();
    json!(v)
  });
  guard!("ends_with", {
    // the last character, a line break, and a letter
    let last = r.to_string().chars().last();
    let mut v = vec![];
    let mut queries = vec![last.unwrap_or('x'), '\n', 'a', '\u{e9}', '\u{20ac}', '\u{1F600}'];
    // characters that share bytes with the end of the text without being it:
    // the same low byte in another plane, the last byte alone as a code point,
    // a character whose encoding ends with the text's last byte(s)
    if let Some(&b) = r.to_bytes().last() {
      for base in [0x100u32, 0x4E00, 0x1F600 & !0xff] {
        if let Some(c) = char::from_u32(base + b as u32) {
          queries.push(c);
        }
      }
      if let Some(c) = char::from_u32(b as u32) {
        queries.push(c);
      }
    }
    if let Some(l) = last {
      if let Some(c) = char::from_u32(l as u32 + 0x40) {
        queries.push(c);
      }
    }
    for c in queries {
      v.push(json!([c as u32, r.ends_with(c)]));
    }
    json!(v)
  });
  guard!("hash", {
    let mut h = twox_hash::XxHash64::default();
    r.hash(&mut h);
    json!(format!("{:016x}", h.finish()))
  });
  guard!("debug", json!(format!("{:?}", r).len()));
  out.insert("panics".into(), json!(panics));
  Value::Object(out)
}

fn pair(a: &Rope, b: &Rope) -> Value {
  let mut panics = vec![];
  let mut get = |name: &str, f: &dyn Fn() -> bool| -> Value {
    match catch_unwind(AssertUnwindSafe(f)) {
      Ok(v) => json!(v),
      Err(_) => {
        panics.push(json!([name, LAST_PANIC.with(|c| c.borrow().clone())]));
        json!("panic")
      }
    }
  };
  let bs = b.to_string();
  let sw = get("starts_with", &|| a.starts_with(b));
  let eq = get("eq", &|| a == b);
  let eq_str = get("eq_str", &|| *a == *bs.as_str());
  let eq_ref = get("eq_ref", &|| *a == bs.as_str());
  json!({"starts_with": sw, "eq": eq, "eq_str": eq_str, "eq_ref": eq_ref, "panics": panics})
}

/// get_byte_slice for every range with 0 <= a, b <= len + 1
fn slices(r: &Rope) -> Value {
  let n = r.len();
  let mut v = vec![];
  let mut panics = vec![];
  for a in 0..=n + 1 {
    for b in 0..=n + 1 {
      match catch_unwind(AssertUnwindSafe(|| r.get_byte_slice(a..b).map(|s| s.to_string()))) {
        Ok(Some(s)) => v.push(json!([a, b, [bytes_json(s.as_bytes())]])),
        Ok(None) => v.push(json!([a, b, []])),
        Err(_) => {
          panics.push(json!([a, b, LAST_PANIC.with(|c| c.borrow().clone())]));
          v.push(json!([a, b, [[-1]]]));
        }
      }
    }
  }
  // the other range forms and the panicking variant, each as the half-open
  // range it stands for: [a, b, result]
  let mut more = vec![];
  let mut push = |a: usize, b: usize, res: std::thread::Result<Option<String>>| match res {
    Ok(Some(s)) => more.push(json!([a, b, [bytes_json(s.as_bytes())]])),
    Ok(None) => more.push(json!([a, b, []])),
    Err(_) => {
      panics.push(json!([a, b, LAST_PANIC.with(|c| c.borrow().clone())]));
      more.push(json!([a, b, [[-1]]]));
    }
  };
  for a in 0..=n + 1 {
    push(a, n, catch_unwind(AssertUnwindSafe(|| r.get_byte_slice(a..).map(|s| s.to_string()))));
    push(0, a, catch_unwind(AssertUnwindSafe(|| r.get_byte_slice(..a).map(|s| s.to_string()))));
    for b in 0..=n + 1 {
      push(a, b + 1, catch_unwind(AssertUnwindSafe(|| r.get_byte_slice(a..=b).map(|s| s.to_string()))));
      // `byte_slice` panics exactly where `get_byte_slice` answers None
      let strict = catch_unwind(AssertUnwindSafe(|| r.byte_slice(a..b).to_string()));
      push(a, b, Ok(strict.ok()));
    }
  }
  push(0, n, catch_unwind(AssertUnwindSafe(|| r.get_byte_slice(..).map(|s| s.to_string()))));
  drop(push);
  json!({"all": v, "more": more, "panics": panics})
}

pub fn run_program(pid: u64, prog: &Value) -> Vec<Value> {
  let arena: Vec<String> = prog["pieces"]
    .as_array()
    .map(|a| a.iter().map(crate::build::string_of).collect())
    .unwrap_or_default();
  let mut recs = vec![];
  for step in prog["steps"].as_array().map(|a| a.as_slice()).unwrap_or(&[]) {
    let mut rec = step.clone();
    let obj = rec.as_object_mut().unwrap();
    obj.insert("pid".into(), json!(pid));
    obj.insert("pieces".into(), prog["pieces"].clone());
    let _ = crate::exec::drain_probes();
    let res = catch_unwind(AssertUnwindSafe(|| {
      let a = eval(&step["a"], &arena);
      let b = eval(&step["b"], &arena);
      match (a, b) {
        (Some(a), Some(b)) => json!({
          "valid": true,
          "a": observe(&a), "b": observe(&b),
          "ab": pair(&a, &b), "ba": pair(&b, &a),
          "slices": slices(&a),
        }),
        _ => json!({"valid": false}),
      }
    }));
    obj.insert("probes".into(), crate::exec::drain_probes());
    match res {
      Ok(out) => {
        obj.insert("oc".into(), json!("ok"));
        obj.insert("out".into(), out);
      }
      Err(_) => {
        obj.insert("oc".into(), json!("panic"));
        obj.insert("out".into(), json!({}));
        obj.insert("loc".into(), json!(LAST_PANIC.with(|c| c.borrow().clone())));
      }
    }
    recs.push(rec);
  }
  recs
}
