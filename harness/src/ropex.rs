//! Rope programs (filled in with the C16 work).
use serde_json::Value;

pub fn run_program(_pid: u64, _prog: &Value) -> Vec<Value> {
  vec![]
}
