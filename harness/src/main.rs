//! rsv — replay harness for the TLA+ model-based verification of
//! rspack-sources. It executes programs against the crate built from /repo
//! and records what it observes as ndjson; verdicts are TLC's.

mod build;
mod custom;
mod exec;
mod gen;
mod ropex;
mod sched;

use std::{
  io::{BufRead, BufReader, BufWriter, Write},
  process::{Command, Stdio},
  sync::mpsc,
  time::Duration,
};

use serde_json::{json, Value};

fn usage() -> ! {
  eprintln!(
    "usage: rsv exec <programs.ndjson> <out-prefix> [--jobs N] [--timeout S]\n\
     \x20      rsv worker <programs.ndjson> <start> <end>\n\
     \x20      rsv gen <kind> <seed> <count> <out.ndjson>\n\
     \x20      rsv sched <schedules.ndjson> <out.ndjson>"
  );
  std::process::exit(2);
}

fn read_lines(path: &str) -> Vec<String> {
  let f = std::fs::File::open(path).unwrap_or_else(|e| {
    eprintln!("cannot open {path}: {e}");
    std::process::exit(2)
  });
  BufReader::new(f)
    .lines()
    .map(|l| l.unwrap())
    .filter(|l| !l.trim().is_empty())
    .collect()
}

fn worker(path: &str, start: usize, end: usize) {
  if std::env::var("RSV_BACKTRACE").is_err() {
    // silent, but remember where the panic came from
    std::panic::set_hook(Box::new(|info| {
      let loc = info
        .location()
        .map(|l| format!("{}:{}", l.file(), l.line()))
        .unwrap_or_default();
      exec::LAST_PANIC.with(|c| *c.borrow_mut() = loc);
    }));
  }
  rspack_sources::verif::set_observer(Some(std::sync::Arc::new(exec::HarnessObserver)));
  let lines = read_lines(path);
  let stdout = std::io::stdout();
  let mut out = BufWriter::new(stdout.lock());
  for (idx, line) in lines.iter().enumerate().take(end).skip(start) {
    let prog: Value = serde_json::from_str(line).expect("bad program json");
    let pid = prog["pid"].as_u64().unwrap_or(idx as u64);
    writeln!(out, "{}", json!({"op": "begin", "pid": pid, "idx": idx})).unwrap();
    out.flush().unwrap();
    if prog["kind"].as_str() == Some("conc") {
      let recs = sched::run_program(pid, &prog);
      let dead = recs.iter().any(|r| r["op"] == "died");
      for rec in recs {
        writeln!(out, "{}", rec).unwrap();
      }
      if dead {
        // threads are stuck inside the crate; this process cannot go on
        out.flush().unwrap();
        std::process::exit(3);
      }
    } else if prog["kind"].as_str() == Some("rope") {
      for rec in ropex::run_program(pid, &prog) {
        writeln!(out, "{}", rec).unwrap();
      }
    } else {
      let mut m = exec::Machine::new();
      if let Some(steps) = prog["steps"].as_array() {
        for step in steps {
          let rec = m.step(pid, step);
          writeln!(out, "{}", rec).unwrap();
        }
      }
    }
    // under the sanitizer build (bin/check sets ASAN_OPTIONS) the end of a
    // program says so: it ran to its end without a report
    if std::env::var_os("ASAN_OPTIONS").is_some() {
      writeln!(out, "{}", json!({"op": "end", "pid": pid, "idx": idx, "asan": true})).unwrap();
    } else {
      writeln!(out, "{}", json!({"op": "end", "pid": pid, "idx": idx})).unwrap();
    }
    out.flush().unwrap();
  }
}

/// Runs programs [start, end) in child processes; a child that dies or stops
/// making progress costs exactly the program it was running.
fn run_shard(path: &str, start: usize, end: usize, out_path: &str, timeout: u64) {
  let exe = std::env::current_exe().unwrap();
  let mut out = BufWriter::new(std::fs::File::create(out_path).unwrap());
  let mut next = start;
  while next < end {
    let side = format!("{out_path}.side");
    let _ = std::fs::remove_file(&side);
    let mut child = Command::new(&exe)
      .env("RSV_SIDE", &side)
      .args(["worker", path, &next.to_string(), &end.to_string()])
      .stdout(Stdio::piped())
      .stderr(Stdio::null())
      .spawn()
      .expect("spawn worker");
    let stdout = child.stdout.take().unwrap();
    let (tx, rx) = mpsc::channel::<String>();
    let reader = std::thread::spawn(move || {
      // a worker that dies may leave a last line cut off in the middle (its
      // buffer was flushed up to some byte): only complete lines are records
      let mut reader = BufReader::new(stdout);
      let mut buf = Vec::new();
      loop {
        buf.clear();
        match reader.read_until(b'\n', &mut buf) {
          Ok(0) | Err(_) => break,
          Ok(_) => {
            if buf.last() != Some(&b'\n') {
              break;
            }
            buf.pop();
            match String::from_utf8(std::mem::take(&mut buf)) {
              Ok(l) => {
                if tx.send(l).is_err() {
                  break;
                }
              }
              Err(_) => break,
            }
          }
        }
      }
    });
    let mut current: Option<(u64, usize)> = None;
    let mut hung = false;
    loop {
      match rx.recv_timeout(Duration::from_secs(timeout)) {
        Ok(line) => {
          if line.starts_with("{\"idx\"") || line.contains("\"op\":\"begin\"") {
            if let Ok(v) = serde_json::from_str::<Value>(&line) {
              if v["op"] == "begin" {
                current = Some((
                  v["pid"].as_u64().unwrap(),
                  v["idx"].as_u64().unwrap() as usize,
                ));
              }
            }
          }
          if line.contains("\"op\":\"end\"") {
            if let Ok(v) = serde_json::from_str::<Value>(&line) {
              if v["op"] == "end" {
                next = v["idx"].as_u64().unwrap() as usize + 1;
                current = None;
              }
            }
          }
          writeln!(out, "{}", line).unwrap();
        }
        Err(mpsc::RecvTimeoutError::Timeout) => {
          hung = true;
          let _ = child.kill();
          break;
        }
        Err(mpsc::RecvTimeoutError::Disconnected) => break,
      }
    }
    let status = child.wait().ok();
    let _ = reader.join();
    let _ = &side;
    // drain whatever the reader still delivered
    while let Ok(line) = rx.try_recv() {
      writeln!(out, "{}", line).unwrap();
    }
    if let Some((pid, idx)) = current {
      // precondition probes that failed right before the process died
      if let Ok(text) = std::fs::read_to_string(&side) {
        let failed: Vec<&str> = text.lines().collect();
        if !failed.is_empty() {
          writeln!(
            out,
            "{}",
            json!({"op": "probe_fail", "pid": pid, "oc": "ok",
                   "probes": {"sites": [], "failed": failed}})
          )
          .unwrap();
        }
      }
      let oc = if hung { "hang" } else { "abort" };
      writeln!(
        out,
        "{}",
        json!({"op": "died", "pid": pid, "idx": idx, "oc": oc,
               "status": status.map(|s| format!("{s}")).unwrap_or_default()})
      )
      .unwrap();
      writeln!(out, "{}", json!({"op": "end", "pid": pid, "idx": idx})).unwrap();
      next = idx + 1;
    } else if next < end {
      let ok = status.map(|s| s.success()).unwrap_or(false);
      if !ok {
        // died between programs: skip nothing, but avoid spinning forever
        eprintln!("worker died outside a program at {next}");
        std::process::exit(2);
      }
      break;
    }
  }
  out.flush().unwrap();
}

fn exec(args: &[String]) {
  if args.len() < 2 {
    usage();
  }
  let path = args[0].clone();
  let prefix = args[1].clone();
  let mut jobs = 8usize;
  let mut timeout = 20u64;
  let mut i = 2;
  while i < args.len() {
    match args[i].as_str() {
      "--jobs" => {
        jobs = args[i + 1].parse().unwrap();
        i += 2;
      }
      "--timeout" => {
        timeout = args[i + 1].parse().unwrap();
        i += 2;
      }
      _ => usage(),
    }
  }
  let n = read_lines(&path).len();
  let jobs = jobs.max(1).min(n.max(1));
  let per = (n + jobs - 1) / jobs.max(1);
  let mut handles = vec![];
  for j in 0..jobs {
    let (s, e) = (j * per, ((j + 1) * per).min(n));
    if s >= e {
      continue;
    }
    let path = path.clone();
    let out_path = format!("{prefix}.{j}.ndjson");
    handles.push(std::thread::spawn(move || {
      run_shard(&path, s, e, &out_path, timeout)
    }));
  }
  for h in handles {
    h.join().unwrap();
  }
  println!("{}", json!({"programs": n, "shards": jobs}));
}

fn main() {
  let args: Vec<String> = std::env::args().skip(1).collect();
  if args.is_empty() {
    usage();
  }
  match args[0].as_str() {
    "exec" => exec(&args[1..]),
    "worker" => {
      if args.len() != 4 {
        usage();
      }
      worker(&args[1], args[2].parse().unwrap(), args[3].parse().unwrap())
    }
    "hashproc" => {
      let mut text = String::new();
      std::io::Read::read_to_string(&mut std::io::stdin(), &mut text).unwrap();
      let tree: Value = serde_json::from_str(&text).expect("tree json");
      println!("{}", exec::hash_of_tree(&tree));
    }
    "gen" => {
      if args.len() != 5 {
        usage();
      }
      gen::generate(
        &args[1],
        args[2].parse().unwrap(),
        args[3].parse().unwrap(),
        &args[4],
      )
    }
    "sched" => {
      if args.len() != 3 {
        usage();
      }
      sched::run(&args[1], &args[2])
    }
    _ => usage(),
  }
}
