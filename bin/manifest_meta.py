"""Human-written parts of MANIFEST.json (level text, trusted base)."""

NOTES = ("All verdicts come from TLA+ predicates (spec/Preds.tla over the denotational modules Text, Vlq, SMap, Sem) "
         "evaluated by TLC on behaviour recorded from the crate built from /repo's working tree. "
         "bin/check <id> [--tier quick|thorough] [--replay file]; exit 2 = tool trouble, never a verdict.")

COMMON_NOTE = ("Trusted: TLC and the CommunityModules Json/IOUtils overrides; the Rust harness only executes calls and "
               "serialises what it saw (texts as byte arrays); bounded scopes + seeded random sampling, no unbounded proof.")

CHECKS = {
    "C01": dict(
        text="Every recorded chunk stream (both column settings, first pass and cached replay through a clone) is reassembled by TLC and "
             "compared with the denotation Text(tree) defined in Sem.tla (reference splice for ReplaceSource, lossy decoding for buffers). "
             "Small scope enumerated exhaustively by TLC (Gen.tla scope c01), larger trees sampled with a seed.",
        note=COMMON_NOTE,
        technique="TLA+ denotational oracle + TLC trace validation of replayed TLC-generated and random programs",
    ),
    "C02": dict(
        text="Chunk positions and generated-end information of every recorded stream (columns x final-source, the latter obtained through a "
             "spy child, no hook) are compared by TLC with the position table of the reassembled text (Text.tla).",
        note=COMMON_NOTE + " Domain restricted to ASCII/consistent maps by the TLA+ predicate AsciiConsistent.",
        technique="TLA+ position oracle + TLC trace validation",
    ),
    "C05": dict(
        text="ReplaceSource histories (mutators interleaved with every observer) are replayed; TLC evolves the replacement list as the object "
             "machine's state and compares each observer's answer with Splice (stable order by start,end,enforce,call order).",
        note=COMMON_NOTE,
        technique="TLA+ object machine with reference splice + TLC trace validation of histories",
    ),
    "C07": dict(
        text="source/rope/buffer/size/to_writer of every tree (binary, multi-byte, composite) compared by TLC with Text/Buffer denotations; "
             "writer fault sequences (error / zero-length / interrupted at every budget) checked against the Writer clauses.",
        note=COMMON_NOTE + " Lossy UTF-8 decoding is specified in Text.tla (maximal-subpart rule).",
        technique="TLA+ denotational oracle + fault enumeration + TLC trace validation",
    ),
    "C11": dict(
        text="Every map() result is decoded by the specification's own VLQ decoder (Vlq.tla) and checked for charset, well-formedness, strictly "
             "increasing positions inside the text and in-table indices; every stream is checked for announce-before-use and dense indices.",
        note=COMMON_NOTE,
        technique="TLA+ source-map v3 decoder + stream protocol monitor + TLC trace validation",
    ),
    "C17": dict(
        text="Every recorded call of every program (wild maps, multi-byte text, out-of-range replacements) must return normally; panics are "
             "caught per call, aborts and hangs are attributed to one program by child-process isolation.",
        note=COMMON_NOTE + " Totality over arbitrary inputs is sampled, not exhaustive.",
        technique="outcome predicate in TLC trace validation over all generated programs",
    ),
}

NOT_APPLICABLE = {}
