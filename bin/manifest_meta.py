"""Human-written parts of MANIFEST.json (level text, trusted base)."""

NOTES = ("All verdicts come from TLA+ predicates (spec/Preds.tla over the denotational modules Text, Vlq, SMap, Sem) "
         "evaluated by TLC on behaviour recorded from the crate built from /repo's working tree. "
         "bin/check <id> [--tier quick|thorough] [--replay file]; exit 2 = tool trouble, never a verdict.")

COMMON_NOTE = ("Trusted: TLC and the CommunityModules Json/IOUtils overrides; the Rust harness only executes calls and "
               "serialises what it saw (texts as byte arrays); bounded scopes + seeded random sampling, no unbounded proof.")

CHECKS = {
    "C01": dict(
        text="Every recorded chunk stream (both column settings, first pass and cached replay through a clone) is reassembled by TLC and "
             "compared with the denotation Text(tree) defined in Sem.tla (reference splice for ReplaceSource, lossy decoding for buffers). "
             "Small scope enumerated exhaustively by TLC (Gen.tla scope c01), larger trees sampled with a seed. LeafM (tokenizer and leaf streams) and SplitM "
             "(map-driven splitters) are model-checked designs bound to the recorded leaf streams (MODEL-DRIFT only).",
        note=COMMON_NOTE,
        technique="TLA+ denotational oracle + TLC trace validation of replayed TLC-generated and random programs",
    ),
    "C02": dict(
        text="Chunk positions and generated-end information of every recorded stream (columns x final-source, the latter obtained through a "
             "spy child, no hook) are compared by TLC with the position table of the reassembled text (Text.tla). The ReplaceSource offset machine is also modelled branch for branch (ReplaceM), model-checked against Splice / the position table, and every recorded stream of a tree without user children is compared with the composed tree model TreeM / TreeC (MODEL-DRIFT only).",
        note=COMMON_NOTE + " Domain: the TLA+ predicate PosDomain = AsciiConsistent (ASCII texts, consistent maps) or ByteColumnTree (raw / original leaves, ConcatSource, ReplaceSource on character boundaries, boxes with any text, binary included).",
        technique="TLA+ position oracle + TLC trace validation",
    ),
    "C03": dict(
        text="For every tree, the SourceMap returned by map() is decoded by the specification's VLQ decoder and resolved at every byte "
             "position (per line for columns=false); TLC compares it with the attribution of the covering chunk of the normal-mode stream "
             "recorded from the same object, both read by value through their own tables (Attr.tla). MC_K1 shows the known finding K1 at design level (ReplaceM over the CachedSource replay of EncM + SplitM differs from the first pass in the original column only).",
        note=COMMON_NOTE + " map() is compared with the most recent stream of the same object; one known finding (K1: ReplaceSource over CachedSource).",
        technique="TLA+ attribution oracle (decode + resolve) + TLC trace validation",
    ),
    "C04": dict(
        text="Byte provenance Prov(tree) (which OriginalSource byte every output byte is a copy of; defined in Sem.tla from the reference splice, "
             "independent of chunking) is compared by TLC with the decoded map: segment targets, coverage of surviving originals, raw text "
             "unmapped, statement starts exact (tokenizer rule specified in TLA+), sources/sourcesContent table, per-line attribution.",
        note=COMMON_NOTE + " The line break of an otherwise empty original line is exempt from coverage (OriginalSource emits it unmapped by design).",
        technique="TLA+ provenance oracle + TLC trace validation",
    ),
    "C06": dict(
        text="ConcatSource: each child's own map() and the composite's map() are resolved at every position and compared by value (content "
             "included); columns=false via the first mapped child piece per line. ReplaceSource: the observed inner stream defines the inner "
             "segments; SpliceProv aligns every output byte with an inner byte or a replacement, and TLC checks file/line/name preservation, "
             "the content-conditioned column advance and replacement names. The implementation-shaped models ConcatM (final-source streaming "
             "of ConcatSource: offsets, need_to_close, last_mapping_line) and ReplaceM are model-checked by TLC against the same requirement "
             "(the pre-repair variant of ConcatM is refuted); the composite's recorded normal-mode stream must attribute every byte as the children's own recorded streams do; and the recorded final-mode streams of children and composite are compared "
             "event by event with what the model emits (reported as MODEL-DRIFT, never as a violation).",
        note=COMMON_NOTE + " Where the recorded content does not equal the skipped text the column may lie anywhere between the segment column and the advanced column (the statement only says when it IS advanced).",
        technique="TLA+ attribution oracle + splice provenance + TLC trace validation",
    ),
    "C08": dict(
        text="Every (text, map) pair of the scope is served by SourceMapSource and by a user-defined source over stream_chunks_default, in all "
             "four (columns, final-source) modes and through map() of an enclosing ConcatSource; TLC compares per-position / per-line attribution "
             "and the declared tables with the given map resolved by SMap.tla.",
        note=COMMON_NOTE + " final-source options are obtained with a spy child (no hook).",
        technique="TLA+ map-resolution oracle + TLC trace validation, exhaustive small scope",
    ),
    "C09": dict(
        text="Compose.tla states declaratively what the combination of an outer and an inner map must attribute every position to; TLC "
             "evaluates it on map() recorded from SourceMapSource values with inner maps (original source given / from sourcesContent, removal, both column settings). "
             "The implementation-shaped model CombineM (index tables, per-line inner table, lookup, content-conditioned column advance, name confirmation, lazy "
             "announcements) is model-checked against Compose on 11,977 trees and every recorded stream of such a source (four modes) is compared event by event "
             "with the model (MODEL-DRIFT only).",
        note=COMMON_NOTE + " Names: an inner name may be dropped where the column was advanced; in the no-inner-mapping case the name is not constrained.",
        technique="TLA+ declarative map composition + TLC trace validation",
    ),
    "C10": dict(
        text="Call histories over a CachedSource, a clone sharing its cache and a parent ConcatSource (final-source cache key) are replayed; the "
             "object machine tracks which cache keys are filled and how (by map / by stream), and TLC compares every answer (text, size, end, "
             "per-position attribution, hash stability) with the answers recorded from the uncached wrapped tree. All histories up to the "
             "tier's length over six wrapped trees are enumerated by TLC. TreeC, the cache-aware composition of the implementation-shaped models, threads the state of every cache through the calls of a program: MC_TreeC checks C10 on it for all histories of up to 3 calls (5,550 cases), and every recorded map / stream of a cached tree is compared with it (MODEL-DRIFT only).",
        note=COMMON_NOTE + " Wrapped trees with a CachedSource beneath a ReplaceSource are outside the comparison (their own answers depend on history, known finding K1).",
        technique="TLA+ object machine (cache state) + transparency predicate + TLC trace validation of enumerated histories",
    ),
    "C14": dict(
        text="Pairs built from the same constructor calls, pairs one edit apart and clones are compared (dyn and typed ==, hashes) before, between "
             "and after observer calls on one operand; TLC keeps the last answers per register and checks symmetry, stability, "
             "equal => same hash and same answers, and repeatability of every observer. Equal call sequences on two ReplaceSources, one of them observed between the calls, must give equal values with equal answers (the state machine of the lazily sorted index is model-checked as IndexM).",
        note=COMMON_NOTE + " Known finding K1b (ReplaceSource over CachedSource: original columns change once the cache is filled).",
        technique="TLA+ object machine with remembered answers + TLC trace validation of histories",
    ),
    "C20": dict(
        text="Gen.tla enumerates every single edit (Edits) of every listed kind at every node of 14 base trees plus all pairs of base trees; for "
             "pairs whose source/buffer/map really differ TLC requires different hashes and inequality; the hash of a tree is recomputed in a "
             "second thread and a second process and after observer histories. HashM models the Hasher calls of every impl Hash; TLC checks on it that equal "
             "feeds imply equal observables (refuted for the code as it is: known finding K3, whose class is evaluated on the model; holds once a ConcatSource "
             "feeds the number of its children), and a recording Hasher binds the model to the code (MODEL-DRIFT only).",
        note=COMMON_NOTE + " 64-bit collisions are outside the model.",
        technique="TLA+ edit enumeration + TLC trace validation; cross-process reproducibility",
    ),
    "C15": dict(
        text="SourceMap values over an alphabet of quotes, backslashes, control characters, U+2028/2029, 2-byte and astral characters are "
             "serialised (to_json, to_writer), the document is read by an independent parser (serde_json) and logged field by field, and parsed "
             "back through from_json / from_slice / from_reader (also through readers that hand out 1 or 7 bytes per call and interrupt once); to_writer is driven by every writer script of the environment model IoM.tla (answers to the first three write calls: short, Ok(0), hard error, interrupted) and by short-write writers; TLC decides the document-level relation DocOf / ValOf (omission of "
             "sourcesContent, optional fields, null entries, missing arrays, reordered and unknown keys).",
        note=COMMON_NOTE + " The byte-level JSON grammar is not specified in TLA+: 'an independent parser accepts it' rests on serde_json (trusted).",
        technique="TLA+ document/value relation + TLC trace validation; independent parser in the harness",
    ),
    "C16": dict(
        text="Pairs of rope expressions (nested construction programs) enumerated by TLC are evaluated on the real Rope; TLC compares every "
             "unary observer, both binary observers in both directions and get_byte_slice for every range with the flat-string definitions of Rope.tla. RopeM (the piece representation: constructors, byte_slice, lines) is model-checked against the flat-string meaning and the representation invariant, and compared with the real representation through the hook verif_pieces (MODEL-DRIFT only).",
        note=COMMON_NOTE,
        technique="TLA+ flat-string semantics + TLC trace validation, exhaustive small scope of construction programs",
    ),
    "C18": dict(
        text="Conc.tla models threads over a shared CachedSource (cache per option set, shard locks, clones), a parent that keeps borrowed "
             "names while a user child yields, and a ReplaceSource with a stale lazy-sort index - one action per code segment between the "
             "crate's schedule points. TLC (a) model-checks WriteOnce, BorrowsLive, ReadsFresh, CloneOK, deadlock freedom and termination "
             "under weak fairness for all 2-thread x 2-call and 3-thread x 1-call programs, (b) emits EVERY interleaving of all pairs of "
             "one-call threads (and sampled 3-thread behaviours) as schedules that a deterministic scheduler replays on the real crate, "
             "(c) validates the recorded runs: each call's answer equals the sequential answer of an uncached twin, the identity of the "
             "map stored per option set never changes, all map() answers on one cache - every thread, and sequential calls after the threads have joined - are one value, no deadlock. A broken variant of the model (insert overwrites) must violate "
             "WriteOnce in every run (non-vacuity). The index mutex of ReplaceSource is part of the model; refusal probes release threads the model says must wait (for a shard lock or the index mutex) and the monitors must still hold.",
        note=COMMON_NOTE + " Interleavings are at the granularity of the hook points (feature verif); the scheduler serialises threads, so weak-memory effects are outside. Schedules that the code does not follow are reported as MODEL-DRIFT, never as a violation.",
        technique="TLA+ concurrency model: TLC model checking + TLC-generated schedules replayed deterministically + TLC trace validation",
    ),
    "C19": dict(
        text="Guarded probes (feature verif) evaluate the documented precondition immediately before each of the 15 unsafe operations; the "
             "harness records per call which sites were reached and which probes were false (a false probe is written to a side file first, "
             "so it survives an abort). TLC requires no false probe on any record of the rope programs, the wild/multi-byte trees and the "
             "concurrent schedules, and every site to be reached in every run. The lifetime-extended CachedSource borrow is covered by the "
             "write-once monitor of C18. The same programs are executed a second time by a harness built with AddressSanitizer (callbacks keep "
             "every borrowed chunk, name and content until the stream call returns and read them then); a sanitizer report ends the worker with a "
             "distinct exit status that the trace records, and TLC requires every program to reach its end without one.",
        note=COMMON_NOTE + " TLA+ cannot see memory: what is decided is 'every executed unsafe operation met its stated precondition' and 'no AddressSanitizer report on any executed program'.",
        technique="precondition probes at unsafe sites + AddressSanitizer re-execution of the same programs + TLC trace validation (per-site coverage enforced)",
    ),
    "C12": dict(
        text="encode_mappings / decode_mappings are run on every mapping sequence of a small exhaustive domain, on big-value pairs per field, "
             "on grammar strings spelled by the specification (redundant continuation digits, empty segments, backward columns) and on all "
             "single-field deltas of the tier's bound; TLC compares with the v3 format as specified in Vlq.tla (decoder, digit emission) and "
             "checks resolution equivalence, subsequence-of-input and re-encode stability; the line-only encoder is reached through "
             "map(columns=false) of a one-child ConcatSource over a scripted child. EncM (both encoders) and DecM (the byte-level decoder, junk behaviour included) are model-checked against the format and bound to the recorded outputs (MODEL-DRIFT only). The whole u32 range of the fields is decided through VlqW.tla (values as pairs of 16-bit halves, an independent wide reader of the format; scope c12wide = the corners of the range in every field; design check MC_VlqW with the 32-bit shift refuted).",
        note=COMMON_NOTE + " Resolution / subsequence oracles work below 2^30 (TLC's 32-bit integers); above that the round trip through the wide format decides.",
        technique="TLA+ specification of the v3 VLQ format + TLC trace validation, exhaustive small scopes",
    ),
    "C13": dict(
        text="Pairs (flat, regrouped/wrapped) are executed; TLC compares text and per-position (per-line) attribution of the two recorded map() answers; sides containing a CachedSource (also in the middle of a tree, also the same wrapper twice) are asked twice.",
        note=COMMON_NOTE + " One known finding (K2: empty insertion inside a chunk refines the original column).",
        technique="TLA+ attribution oracle on law instances + TLC trace validation",
    ),
    "C05": dict(
        text="ReplaceSource histories (mutators interleaved with every observer) are replayed; TLC evolves the replacement list as the object "
             "machine's state and compares each observer's answer with Splice (stable order by start,end,enforce,call order). ReplaceM (streaming of the sorted replacements) is model-checked against Splice on up to 135,845 inputs. IndexM models the lazily sorted index (replacements / sorted_index / is_sorted under push, observe, clone) and TLC checks that the order an observer reads is the stable order of the calls whatever the history; three shortcut variants are refuted.",
        note=COMMON_NOTE,
        technique="TLA+ object machine with reference splice + TLC trace validation of histories",
    ),
    "C07": dict(
        text="source/rope/buffer/size/to_writer of every tree (binary, multi-byte, composite) compared by TLC with Text/Buffer denotations; "
             "writer fault sequences (error / zero-length / interrupted / one refused call / short writes at every budget) checked against the Writer clauses; the io::Write environment is itself a TLA+ state machine (IoM.tla, model-checked, keep-going variant refuted) whose 259 scripts are replayed against the real to_writer.",
        note=COMMON_NOTE + " Lossy UTF-8 decoding is specified in Text.tla (maximal-subpart rule).",
        technique="TLA+ denotational oracle + fault enumeration + TLC trace validation",
    ),
    "C11": dict(
        text="Every map() result is decoded by the specification's own VLQ decoder (Vlq.tla) and checked for charset, well-formedness, strictly "
             "increasing positions inside the text and in-table indices; every stream is checked for announce-before-use and dense indices.",
        note=COMMON_NOTE,
        technique="TLA+ source-map v3 decoder + stream protocol monitor + TLC trace validation",
    ),
    "C17": dict(
        text="Every recorded call of every program (wild maps, multi-byte text, out-of-range replacements; streams, maps and the content views source / rope / buffer / size / to_writer) must return normally; panics are "
             "caught per call, aborts and hangs are attributed to one program by child-process isolation.",
        note=COMMON_NOTE + " Totality over arbitrary inputs is sampled, not exhaustive.",
        technique="outcome predicate in TLC trace validation over all generated programs",
    ),
}

NOT_APPLICABLE = {}
