"""Per-property configuration of bin/check: which generators feed the
property, which TLA+ predicates (TV.tla / Preds.tla) decide it, and how the
evidence counts non-trivial cases.  No verdict logic lives here."""


def tlc(scope, tier="both"):
    return dict(how="tlc", scope=scope, tier=tier)


def rand(kind, count, tier):
    return dict(how="rand", kind=kind, count=count, tier=tier)


def json_dumps(p):
    import json
    return json.dumps(p.get("steps", []))


def kinds_in(tree, acc=None):
    acc = set() if acc is None else acc
    if isinstance(tree, dict):
        if "k" in tree:
            acc.add(tree["k"])
        for v in tree.values():
            kinds_in(v, acc)
    elif isinstance(tree, list):
        for v in tree:
            kinds_in(v, acc)
    return acc


def prog_kinds(prog):
    acc = set()
    for s in prog.get("steps", []):
        if "tree" in s:
            kinds_in(s["tree"], acc)
    return acc


PROPS = {
    "C01": dict(
        gens=[tlc("c01"), rand("stream_any", 600, "quick"), rand("stream_unsorted", 400, "quick"),
              rand("stream_any", 30000, "thorough"), rand("stream_unsorted", 20000, "thorough"), rand("replace_hist", 400, "quick"), rand("replace_hist", 20000, "thorough")],
        tv_props=["C01", "DRIFT"],
        mc=[dict(module="MC_LeafM.tla", cfg="MC_LeafM", tier="quick"),
            dict(module="MC_LeafM.tla", cfg="MC_LeafM_deep", tier="thorough", timeout=1800)],
        must_fire=["C01.reassemble", "C01.chunks_have_text"],
        rule="TLC-enumerated small trees (Gen.tla scope c01) plus seeded random trees (multi-byte text, wild maps, "
             "overlapping/out-of-range replacements, maps whose columns go backwards, cached replay through a clone); non-trivial = the tree has a "
             "composite or map-carrying node (concat/replace/cached/sms)",
        nontrivial=lambda p: bool(prog_kinds(p) & {"concat", "replace", "cached", "sms", "default"}),
    ),
    "C02": dict(
        gens=[tlc("c02"), rand("stream_ascii", 600, "quick"), rand("stream_ascii", 30000, "thorough")],
        tv_props=["C02", "DRIFT"],
        mc=[dict(module="MC_ReplaceM.tla", cfg="MC_ReplaceM", tier="quick"),
            dict(module="MC_ReplaceM.tla", cfg="MC_ReplaceM_deep", tier="thorough", timeout=3000)],
        must_fire=["C02.chunk_positions", "C02.end_position", "C02.final_positions_in_text"],
        rule="ASCII trees with consistent leaf maps; non-trivial = contains a ReplaceSource or a multi-child ConcatSource",
        nontrivial=lambda p: bool(prog_kinds(p) & {"concat", "replace"}),
    ),
    "C03": dict(
        gens=[tlc("c02"), tlc("c04"), rand("stream_ascii", 600, "quick"), rand("stream_ascii", 30000, "thorough")],
        tv_props=["C03", "DRIFT"],
        mc=[dict(module="MC_K1.tla", cfg="MC_K1"), dict(module="MC_K1.tla", cfg="MC_K1_same", expect="SameAnswer")],
        must_fire=["C03.map_equals_stream_columns", "C03.map_equals_stream_lines", "C03.none_iff_no_mapped_chunk"],
        rule="as C02; every map() answer is resolved at every byte position and compared with the covering chunk of the "
             "normal-mode stream of the same object; non-trivial = composite tree with a mapped leaf",
        nontrivial=lambda p: bool(prog_kinds(p) & {"concat", "replace", "cached"}) and bool(prog_kinds(p) & {"orig", "sms"}),
    ),
    "C04": dict(
        gens=[tlc("c02"), tlc("c04"), rand("orig_trees", 700, "quick"), rand("orig_trees", 30000, "thorough")],
        tv_props=["C04", "DRIFT"],
        must_fire=["C04.segments_point_to_origin", "C04.originals_covered", "C04.raw_unmapped",
                   "C04.statement_starts_exact", "C04.sources_table", "C04.lines_first_original"],
        rule="trees over raw/orig/concat/replace/cached (Cached never beneath Replace); the byte provenance Prov(tree) of "
             "Sem.tla is compared with what the decoded map resolves every position to; non-trivial = an OriginalSource "
             "beneath a composite",
        nontrivial=lambda p: "orig" in prog_kinds(p) and bool(prog_kinds(p) & {"concat", "replace"}),
    ),
    "C05": dict(
        gens=[tlc("c05"), rand("replace_hist", 500, "quick"), rand("replace_hist", 30000, "thorough")],
        tv_props=["C05", "DRIFT"],
        # the lazily sorted index as a state machine (push / observe / clone): the order an observer reads is the stable
        # order of the calls whatever the history; three shortcuts (those of seeds C14-d, C05-c, C05-d) are refuted,
        # the same shortcut done right is accepted
        mc=[dict(module="MC_IndexM.tla", cfg="MC_IndexM"),
            dict(module="MC_IndexM.tla", cfg="MC_IndexM_push_keeps_flag_if_ge_sorted_last"),
            dict(module="MC_IndexM.tla", cfg="MC_IndexM_push_keeps_flag_if_ge_last_pushed", expect="FlagMeansCurrent"),
            dict(module="MC_IndexM.tla", cfg="MC_IndexM_clone_without_index", expect="FlagMeansCurrent"),
            dict(module="MC_IndexM.tla", cfg="MC_IndexM_sort_unstable", expect="FlagMeansCurrent")],
        must_fire=["C05.source_is_splice"],
        rule="histories of replace/insert calls interleaved with observers; non-trivial = at least two replacements",
        nontrivial=lambda p: sum(1 for s in p.get("steps", []) if s["op"] == "replace") >= 2,
    ),
    "C06": dict(
        gens=[tlc("c06"), tlc("c06r"), rand("concat_children", 300, "quick"), rand("replace_inner", 400, "quick"),
              rand("concat_children", 10000, "thorough"), rand("replace_inner", 20000, "thorough")],
        tv_props=["C06", "DRIFT"],
        mc=[dict(module="MC_ConcatM.tla", cfg="MC_ConcatM"),
            dict(module="MC_ConcatM.tla", cfg="MC_ConcatM_preF2", expect="DesignOK"),
            dict(module="MC_ReplaceM.tla", cfg="MC_ReplaceM_attr", tier="quick"),
            dict(module="MC_ReplaceM.tla", cfg="MC_ReplaceM_attr_full", tier="thorough", timeout=1800)],
        must_fire=["C06.concat_keeps_child_attribution", "C06.concat_stream_keeps_child_streams", "C06.concat_lines_first_mapped_piece",
                   "C06.replace_keeps_inner_attribution"],
        rule="children / inner sources are observed on their own and inside the composite; non-trivial = a SourceMapSource "
             "or user-defined child is involved",
        nontrivial=lambda p: bool(prog_kinds(p) & {"sms", "script", "default"}),
    ),
    "C07": dict(
        gens=[tlc("c07"), rand("views", 500, "quick"), rand("views", 30000, "thorough")],
        tv_props=["C07", "DRIFT"],
        mc=[dict(module="MC_IoM.tla", cfg="MC_IoM"),
            dict(module="MC_IoM.tla", cfg="MC_IoM_keepgoing", expect=["PrefixOnly", "NoCallAfterError"])],
        must_fire=["C07.source_is_text", "C07.buffer", "C07.size_is_buffer_len", "C07.rope_renders_to_text", "C07.writer", "C07.writer_script"],
        rule="all five content views plus failing writers; non-trivial = composite tree or a binary leaf",
        nontrivial=lambda p: bool(prog_kinds(p) & {"concat", "replace", "cached"}),
    ),
    "C08": dict(
        gens=[tlc("c08"), rand("sms_leaf", 500, "quick"), rand("sms_leaf", 30000, "thorough")],
        tv_props=["C08", "DRIFT"],
        mc=[dict(module="MC_SplitM.tla", cfg="MC_SplitM")],
        must_fire=["C08.stream_columns", "C08.stream_lines", "C08.final_columns", "C08.final_lines",
                   "C08.declared_tables", "C08.via_enclosing_map"],
        rule="every text/map pair of the scope served by SourceMapSource and by a user-defined source over "
             "stream_chunks_default, columns x final-source, and through map() of an enclosing ConcatSource; "
             "non-trivial = the map has at least two segments",
        nontrivial=lambda p: True,
    ),
    "C09": dict(
        gens=[tlc("c09", "quick"), tlc("c09full", "thorough"), rand("combined", 500, "quick"), rand("combined", 30000, "thorough")],
        tv_props=["C09", "DRIFT"],
        mc=[dict(module="MC_CombineM.tla", cfg="MC_CombineM")],
        must_fire=["C09.compose_columns", "C09.compose_lines"],
        rule="SourceMapSource with an inner map: every (outer map, inner map) pair of the scope, original source given or "
             "taken from the outer sourcesContent, remove_original_source, both column settings; non-trivial = an outer "
             "segment points into the inner source",
        nontrivial=lambda p: True,
    ),
    "C10": dict(
        gens=[tlc("c10", "quick"), tlc("c10full", "thorough"), rand("cached_hist", 500, "quick"), rand("cached_hist", 30000, "thorough")],
        tv_props=["C10", "DRIFT"],
        mc=[dict(module="MC_SplitM.tla", cfg="MC_SplitM"), dict(module="MC_TreeC.tla", cfg="MC_TreeC")],
        must_fire=["C10.source", "C10.buffer", "C10.size", "C10.hash_stable",
                   "C10.map_cold", "C10.map_filled_by_map", "C10.map_filled_by_stream", "C10.map_through_parent",
                   "C10.stream_cold", "C10.stream_filled_by_map", "C10.stream_filled_by_stream"],
        rule="call histories over a CachedSource, a clone sharing its cache and a parent ConcatSource (exercises the final-source key), "
             "compared call by call with the answers of the uncached wrapped tree; predicate names carry the cache state the object "
             "machine was in (cold / filled by map / filled by stream); non-trivial = history of length >= 2",
        nontrivial=lambda p: sum(1 for s in p.get("steps", []) if s["op"] in ("map", "stream", "hash", "source", "buffer", "size")) >= 12,
    ),
    "C11": dict(
        gens=[tlc("c02"), tlc("c06r"), rand("stream_ascii", 600, "quick"), rand("stream_ascii", 30000, "thorough")],
        tv_props=["C11", "DRIFT"],
        must_fire=["C11.announce_before_use", "C11.map_well_formed", "C11.map_strictly_increasing",
                   "C11.map_inside_text", "C11.map_indices_in_tables"],
        rule="as C02; non-trivial = the tree can produce a map (orig/sms leaf)",
        nontrivial=lambda p: bool(prog_kinds(p) & {"orig", "sms"}),
    ),
    "C12": dict(
        gens=[tlc("c12"), tlc("c12wide"), tlc("c12vlq", "thorough"), rand("codec", 2000, "quick"), rand("codec", 100000, "thorough"), rand("decoder_junk", 300, "quick"), rand("decoder_junk", 20000, "thorough")],
        tv_props=["C12", "DRIFT"],
        mc=[dict(module="MC_EncM.tla", cfg="MC_EncM"), dict(module="MC_DecM.tla", cfg="MC_DecM", tier="quick"),
            dict(module="MC_DecM.tla", cfg="MC_DecM_deep", tier="thorough", timeout=1800),
            dict(module="MC_VlqW.tla", cfg="MC_VlqW"),
            dict(module="MC_VlqW.tla", cfg="MC_VlqW_narrow", expect="RoundTrip")],
        must_fire=["C12.wide_decodes_to_input", "C12.wide_roundtrip", "C12.wide_reencode_stable",
                   "C12.wide_lines_only_first_mapped", "C12.decode_matches_format", "C12.roundtrip_resolves_same", "C12.kept_is_subsequence",
                   "C12.reencode_stable", "C12.decoder_matches_format", "C12.lines_only_first_mapped", "C12.vlq_digits"],
        rule="sorted mapping sequences (small exhaustive domain, big values per field, the corners of the whole u32 range "
             "through the wide format VlqW, random), grammar strings with redundant "
             "continuation digits / empty segments / backward columns, exhaustive single-field deltas (|d| < 2^10 quick, < 2^20 "
             "thorough); non-trivial = at least two segments or a grammar string",
        nontrivial=lambda p: any(len(s.get("segs", [])) >= 2 or s["op"] in ("decode", "vlq_batch") for s in p.get("steps", [])),
    ),
    "C13": dict(
        gens=[tlc("c13"), rand("laws", 400, "quick"), rand("laws", 20000, "thorough")],
        tv_props=["C13", "DRIFT"],
        must_fire=["C13.same_text", "C13.same_attribution_columns", "C13.same_attribution_lines"],
        rule="pairs (flat tree, regrouped / wrapped tree); non-trivial = at least one mapped leaf",
        nontrivial=lambda p: bool(prog_kinds(p) & {"orig", "sms"}),
    ),
    "C14": dict(
        gens=[tlc("c14"), rand("identity", 500, "quick"), rand("identity", 30000, "thorough")],
        tv_props=["C14", "DRIFT"],
        mc=[dict(module="MC_IndexM.tla", cfg="MC_IndexM"),
            dict(module="MC_IndexM.tla", cfg="MC_IndexM_push_keeps_flag_if_ge_last_pushed", expect="FlagMeansCurrent")],
        must_fire=["C14.eq_symmetric", "C14.eq_stable", "C14.same_construction_equal", "C14.typed_agrees_with_dyn",
                   "C14.equal_implies_same_hash", "C14.equal_implies_same_answers", "C14.observer_repeatable"],
        rule="pairs built by the same constructor calls and pairs one edit apart (Gen.tla Edits), with observer calls on one operand "
             "before and between comparisons, clones; non-trivial = an observer call separates two comparisons",
        nontrivial=lambda p: True,
    ),
    "C18": dict(
        gens=[dict(how="conc", cfg="Gen_Conc2", tier="both"),
              dict(how="conc", cfg="Gen_Conc3", simulate=1500, tier="quick"),
              dict(how="conc", cfg="Gen_Conc3", simulate=20000, tier="thorough"),
              dict(how="conc_rand", count=600, tier="quick"), dict(how="conc_rand", count=20000, tier="thorough")],
        tv_props=["C18", "DRIFT"],
        conformance=True,
        mc=[dict(module="MC_Conc.tla", cfg="MC_Conc_2x2"), dict(module="MC_Conc.tla", cfg="MC_Conc_3x1"),
            dict(module="MC_Conc.tla", cfg="MC_Conc_bug_insert", expect="WriteOnce"),
            dict(module="MC_Conc.tla", cfg="MC_Conc_bug_tryget", expect="NoMonitorFired")],
        must_fire=["C18.map_answers_are_the_cached_value", "C18.answer_is_sequential", "C18.cached_value_never_replaced", "C18.no_deadlock"],
        rule="every interleaving (at the granularity of the crate's schedule points) of all pairs of one-call threads over a shared "
             "CachedSource, a parent of a clone of it with a yielding child and a ReplaceSource with a stale sort index, enumerated "
             "by TLC from Conc.tla and replayed by a deterministic scheduler; three-thread behaviours sampled by TLC simulation; "
             "random op lists under the scheduler's random choice; non-trivial = two threads touch the same object",
        nontrivial=lambda p: True,
    ),
    "C19": dict(
        gens=[tlc("c16"), tlc("c01"), dict(how="conc", cfg="Gen_Conc2", tier="both"),
              rand("ropes", 1000, "quick"), rand("wild", 400, "quick"), rand("stream_any", 300, "quick"),
              rand("ropes", 60000, "thorough"), rand("wild", 30000, "thorough"), rand("stream_any", 20000, "thorough")],
        tv_props=["C19"],
        must_fire=["C19.preconditions_hold", "C19.rope.slice.same_piece", "C19.rope.slice.pieces",
                   "C19.with_indices.substring", "C19.str.byte_slice_unchecked", "C19.encoder.full.drain",
                   "C19.encoder.lines.drain", "C19.replace.extend_replacement_borrow", "C19.cached.extend_map_borrow",
                   "C19.rope.unchecked.light", "C19.rope.unchecked.same_piece", "C19.rope.unchecked.same_piece_range",
                   "C19.rope.unchecked.pieces", "C19.rope.unchecked.first_piece_range", "C19.rope.unchecked.last_piece_range",
                   "C19.cached_map_borrow_stays_valid", "C19.no_sanitizer_report"],
        also_release=False,
        also_asan=True,
        rule="the rope programs of C16 (including piece-less and empty-piece ropes), the trees of C01 with multi-byte text and wild "
             "maps; every unsafe site must be reached and its precondition (evaluated by a guarded probe immediately before the "
             "operation) must hold; non-trivial = a probe site was reached",
        nontrivial=lambda p: True,
    ),
    "C20": dict(
        gens=[tlc("c20"), rand("edit_pairs", 500, "quick"), rand("edit_pairs", 30000, "thorough")],
        tv_props=["C20", "DRIFT"],
        mc=[dict(module="MC_HashM.tla", cfg="MC_HashM", expect="Separates"),
            dict(module="MC_HashM.tla", cfg="MC_HashM_delimited")],
        must_fire=["C20.different_observables_different_hash", "C20.hash_reproducible"],
        rule="every single edit of every listed kind at every node of the base trees, and all pairs of base trees; a pair counts only "
             "when source/buffer/map really differ; hashes recomputed in a second thread and a second process; non-trivial = the pair "
             "is observably different",
        nontrivial=lambda p: True,
    ),
    "C15": dict(
        gens=[tlc("c15"), rand("json_maps", 500, "quick"), rand("json_maps", 30000, "thorough")],
        tv_props=["C15"],
        must_fire=["C15.serialises", "C15.writer_equals_json", "C15.writer_short_writes", "C15.writer_script", "C15.document_matches_value", "C15.round_trip",
                   "C15.entry_points_agree", "C15.document_reads_as_value"],
        rule="SourceMap values whose strings contain quotes, backslashes, control characters, U+2028/2029 and astral characters, optional "
             "fields present/absent; hand-built documents with null entries, missing arrays, reordered and unknown keys; non-trivial = "
             "a string needs escaping or a field is absent/null",
        nontrivial=lambda p: True,
    ),
    "C16": dict(
        gens=[tlc("c16", "quick"), tlc("c16full", "thorough"), rand("ropes", 1500, "quick"), rand("ropes", 100000, "thorough")],
        tv_props=["C16", "DRIFT"],
        mc=[dict(module="MC_RopeM.tla", cfg="MC_RopeM")],
        must_fire=["C16.definedness_agrees", "C16.no_panic", "C16.unary_observers", "C16.binary_observers", "C16.byte_slices"],
        rule="pairs of rope expressions (new / from / from_iter / add / append / byte-slice / k-th line, nested to depth 2-3) over "
             "pieces containing the empty string, line breaks and 1-4 byte characters; every unary observer, both binary observers in "
             "both directions, every slice range; non-trivial = a multi-piece rope is involved",
        nontrivial=lambda p: any(k in json_dumps(p) for k in ("from_iter", "append", "add")),
    ),
    "C17": dict(
        gens=[tlc("c01"), tlc("c17"), rand("extremes", 1000, "both"), rand("stream_any", 400, "quick"), rand("wild", 600, "quick"), rand("decoder_junk", 300, "quick"),
              rand("parser_bytes", 300, "quick"),
              rand("stream_any", 20000, "thorough"), rand("wild", 40000, "thorough"), rand("decoder_junk", 20000, "thorough"),
              rand("parser_bytes", 20000, "thorough")],
        tv_props=["C17"],
        must_fire=["C17.no_panic"],
        also_release=True,
        rule="every recorded call must return normally (debug build with overflow checks; the same programs are re-run in a release "
             "build): trees with wild maps and combined maps, arbitrary decoder strings with long continuation runs, arbitrary / "
             "mutated / deeply nested bytes for the JSON entry points; non-trivial = composite tree or a parser/decoder input",
        nontrivial=lambda p: bool(prog_kinds(p) & {"concat", "replace", "cached", "sms"}) or any(s["op"] in ("decode", "parse") for s in p.get("steps", [])),
    ),
}


def nontrivial(prop, prog):
    f = PROPS[prop].get("nontrivial")
    return bool(f(prog)) if f else True


def classify(prop, pred, prog, known):
    """A failing record is downgraded to KNOWN-FINDING only if a committed
    known_findings.json entry's shape matches; matching is by the narrow
    structural class named in the entry (see DESIGN section 2.3)."""
    for k in known:
        m = MATCHERS.get(k.get("class"))
        if m and pred in k.get("predicates", [pred]) and m(prog):
            return k
    return None


MATCHERS = {}
