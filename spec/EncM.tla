-------------------------------- MODULE EncM --------------------------------
(***************************************************************************)
(* Implementation-shaped model of the crate's two mappings encoders         *)
(* (src/encoder.rs): the state each keeps between segments and one step per *)
(* encoded segment, branch for branch.  TLC checks this DESIGN against the  *)
(* declarative requirements of property C12 for every sorted sequence of a  *)
(* small domain (MC_EncM.cfg): what the v3 decoder of Vlq.tla reads back    *)
(* resolves every input position as the input did, the kept segments are a  *)
(* subsequence of the input, the output is well-formed; the line-only       *)
(* encoder keeps the first mapped segment of each line.  Trace validation   *)
(* additionally compares the real encoder's output with this model          *)
(* (reported as model conformance, never as a verdict).                     *)
(***************************************************************************)
EXTENDS Naturals, Integers, Sequences, FiniteSets, SequencesExt,
        FiniteSetsExt, Text, Vlq, SMap

FullInit ==
  [line |-> 1, col |-> 0, ol |-> 1, oc |-> 0, si |-> 0, ni |-> 0,
   active |-> FALSE, activeName |-> FALSE, initial |-> TRUE, out |-> <<>>]

(* FullMappingsEncoder::encode                                              *)
FullStep(st, s) ==
  LET mapped == s.si >= 0
      stillActive == st.active /\ st.line = s.gl
      repeats == mapped /\ s.si = st.si /\ s.ol = st.ol /\ s.oc = st.oc
                   /\ ~st.activeName /\ s.ni < 0
  IN IF stillActive /\ repeats THEN st          \* avoid repeating the same original mapping
     ELSE IF ~stillActive /\ ~mapped THEN st    \* avoid writing unnecessary generated mappings
     ELSE
       LET newline == st.line < s.gl
           sep == IF newline THEN [i \in 1..(s.gl - st.line) |-> SEMI]
                  ELSE IF st.initial THEN <<>> ELSE <<COMMA>>
           col0 == IF newline THEN 0 ELSE st.col
           head == sep \o Digits(s.gc - col0)
       IN IF ~mapped
            THEN [st EXCEPT !.line = s.gl, !.col = s.gc, !.initial = FALSE,
                            !.active = FALSE, !.out = st.out \o head]
            ELSE
              LET body == (IF s.si = st.si THEN <<65>> ELSE Digits(s.si - st.si))
                            \o Digits(s.ol - st.ol)
                            \o (IF s.oc = st.oc THEN <<65>> ELSE Digits(s.oc - st.oc))
                            \o (IF s.ni >= 0 THEN Digits(s.ni - st.ni) ELSE <<>>)
              IN [st EXCEPT !.line = s.gl, !.col = s.gc, !.initial = FALSE,
                            !.active = TRUE, !.si = s.si, !.ol = s.ol, !.oc = s.oc,
                            !.ni = IF s.ni >= 0 THEN s.ni ELSE st.ni,
                            !.activeName = s.ni >= 0,
                            !.out = st.out \o head \o body]

EncodeFullM(segs) == FoldLeft(FullStep, FullInit, segs).out

LinesInit == [lastWritten |-> 0, line |-> 1, si |-> 0, ol |-> 1, out |-> <<>>]

(* LinesOnlyMappingsEncoder::encode                                         *)
LinesStep(st, s) ==
  IF s.si < 0 \/ st.lastWritten = s.gl THEN st
  ELSE
    LET semis == [i \in 1..(s.gl - st.line) |-> SEMI]
        body == IF s.si = st.si
                  THEN (IF s.ol = st.ol + 1 THEN <<65, 65, 67, 65>>
                        ELSE <<65, 65>> \o Digits(s.ol - st.ol) \o <<65>>)
                  ELSE <<65>> \o Digits(s.si - st.si) \o Digits(s.ol - st.ol) \o <<65>>
    IN [st EXCEPT !.lastWritten = s.gl, !.line = s.gl, !.si = s.si, !.ol = s.ol,
                  !.out = st.out \o semis \o body]

EncodeLinesM(segs) == FoldLeft(LinesStep, LinesInit, segs).out

-----------------------------------------------------------------------------
(* the requirements of C12 on an encoder output                             *)
RawAttrM(s) == IF s.si < 0 THEN <<-1, 0, 0, -1>> ELSE <<s.si, s.ol, s.oc, s.ni>>
RawResolveM(segs, line, col) ==
  LET i == CoverIdx(segs, line, col)
  IN IF i = 0 THEN <<-1, 0, 0, -1>> ELSE RawAttrM(segs[i])

IsSubseq(xs, ys) ==
  LET step(k, y) == IF k <= Len(xs) /\ xs[k] = y THEN k + 1 ELSE k
  IN FoldLeft(step, 1, ys) = Len(xs) + 1

FullOK(segs) ==
  LET out == EncodeFullM(segs)
      dec == DecodeMappings(out)
  IN /\ WellFormedMappings(out)
     /\ IsSubseq(dec, segs)
     /\ \A i \in 1..Len(segs) :
          RawResolveM(dec, segs[i].gl, segs[i].gc) = RawResolveM(segs, segs[i].gl, segs[i].gc)
     /\ EncodeFullM(dec) = out

LinesOK(segs) ==
  LET out == EncodeLinesM(segs)
      dec == DecodeMappings(out)
      lines == SetToSortSeq({segs[i].gl : i \in {j \in 1..Len(segs) : segs[j].si >= 0}}, <)
  IN /\ WellFormedMappings(out)
     /\ [k \in 1..Len(dec) |-> <<dec[k].gl, dec[k].gc, dec[k].si, dec[k].ol, dec[k].ni>>]
          = [k \in 1..Len(lines) |->
               LET s == segs[FirstMappedIdx(segs, lines[k])]
               IN <<s.gl, 0, s.si, s.ol, -1>>]
=============================================================================
