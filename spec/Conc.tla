-------------------------------- MODULE Conc --------------------------------
(***************************************************************************)
(* Concurrent readers of shared sources (property C18, lifetime part of     *)
(* C19).  Threads run lists of observer calls on                            *)
(*   - one CachedSource C (cache: option-set key -> stored map identity,    *)
(*     one DashMap shard lock per key class, clones share everything), and  *)
(*   - one ReplaceSource R whose lazily sorted index may be stale (flag     *)
(*     FALSE), plus the clones threads take of it.                          *)
(* One action per code segment between two schedule points of the crate     *)
(* (feature verif): a step releases one thread from the point where it is   *)
(* parked; the released thread performs the shared-state access that        *)
(* follows the point and runs to its next point.  The schedule points are   *)
(*   op.start                                                              *)
(*   cached.map.get / cached.map.insert                                    *)
(*   cached.stream.entry / .occupied / .vacant / .fill,  user.yield         *)
(*   replace.sort.load_flag / .store_index / .store_flag,                   *)
(*   replace.read_index, replace.index.locked (inside the index mutex)      *)
(* Clone of the ReplaceSource has no point of its own: it copies the index  *)
(* and then the flag while it still holds the index mutex (the guard is a   *)
(* temporary of the struct expression), and the sorter stores the index     *)
(* under that mutex before it sets the flag - so for the scheduler, as for  *)
(* any other thread, Clone is one step.  (An earlier version of this spec   *)
(* split Clone in two; TLC then reported a clone with the flag set and a    *)
(* stale index.  Replaying that schedule on the real code - scratch hooks   *)
(* inside Clone, findings/F10_refuted_scratch_hook.diff - showed the sorter *)
(* blocked on the mutex: the model was wrong, not the code.)                *)
(*                                                                         *)
(* The switch InsertOverwrites describes the code before its repair: the    *)
(* check-then-insert of map() replaces an entry that was cached in between. *)
(* TLC finds the counterexample (MC_Conc_bug_insert.cfg); the registered    *)
(* runs use FALSE.  The switch MapSkipsHeldShard describes a map() that      *)
(* does not wait for a shard a streaming call holds (MC_Conc_bug_tryget.cfg  *)
(* violates NoMonitorFired: the answer is not the cached value); what the    *)
(* insert step of map() answers is the stored value by construction          *)
(* (or_insert), so "every map() answer on a key is the one value the cache   *)
(* holds" follows from WriteOnce in the unmodified design.                   *)
(***************************************************************************)
EXTENDS Naturals, Integers, Sequences, FiniteSets, TLC, Json

CONSTANTS Threads,          \* e.g. {0, 1}
          Programs,         \* set of functions Threads -> Seq(op)
          ShardOf,          \* key -> shard
          InsertOverwrites,
          MapSkipsHeldShard \* TRUE: map() does not wait for a held shard (seed C18-f); registered runs use FALSE

Keys == DOMAIN ShardOf

(* op kinds: [k |-> "map", key], [k |-> "stream", key], [k |-> "pstream",   *)
(* key] (stream through a parent whose next child yields to the scheduler   *)
(* while the names borrowed from the cached map are still in use),          *)
(* [k |-> "rsource"], [k |-> "rclone"], [k |-> "csource"] (source() of the  *)
(* thread's own clone)                                                      *)

VARIABLES prog,      \* the program being run
          pc,        \* thread -> current point ("idle" before op.start, "done")
          opi,       \* thread -> index of the current op
          cache,     \* key -> 0 (absent) or identity of the stored map
          lock,      \* shard -> holder thread or -1
          nextId,    \* fresh identities
          tmp,       \* thread -> scratch (value computed / borrowed / loaded)
          flag, idx, \* object -> lazy-sort state; objects: -1 (the shared one) and t (the clone of thread t)
          ilock,     \* object -> thread that holds the mutex of the sorted index, or -1
          hist,      \* schedule so far: sequence of thread ids
          bad        \* set of violated monitor names

vars == <<prog, pc, opi, cache, lock, nextId, tmp, flag, idx, ilock, hist, bad>>

Objects == {-1} \cup Threads

Init ==
  /\ prog \in Programs
  /\ pc = [t \in Threads |-> "idle"]
  /\ opi = [t \in Threads |-> 1]
  /\ cache = [k \in Keys |-> 0]
  /\ lock = [s \in {ShardOf[k] : k \in Keys} |-> -1]
  /\ nextId = 2
  /\ tmp = [t \in Threads |-> 0]
  /\ flag = [o \in Objects |-> FALSE]
  /\ idx = [o \in Objects |-> "stale"]
  /\ ilock = [o \in Objects |-> -1]
  /\ hist = <<>>
  /\ bad = {}

CurOp(t) == prog[t][opi[t]]
HasOp(t) == opi[t] <= Len(prog[t])

(* the object a lazy-sort point of thread t works on                        *)
SortObj(t) == IF CurOp(t).k = "csource" THEN t ELSE -1

Finish(t) ==
  /\ opi' = [opi EXCEPT ![t] = @ + 1]
  /\ pc' = [pc EXCEPT ![t] = IF opi[t] + 1 <= Len(prog[t]) THEN "idle" ELSE "done"]

Goto(t, p) == pc' = [pc EXCEPT ![t] = p] /\ UNCHANGED opi

(* first point of an op                                                     *)
FirstPoint(op) ==
  CASE op.k = "map" -> "cached.map.get"
    [] op.k \in {"stream", "pstream"} -> "cached.stream.entry"
    [] op.k \in {"rsource", "csource"} -> "replace.sort.load_flag"

(* Release thread t from the point it is parked at.                         *)
Release(t) ==
  LET op == CurOp(t)
      p == pc[t]
  IN
  /\ hist' = Append(hist, t)
  /\ UNCHANGED prog
  /\ CASE p = "idle" ->
            /\ HasOp(t)
            /\ IF op.k = "rclone"
                 THEN \* Clone: index and flag copied in one step (see above), under
                      \* the index mutex: it waits for a reader that holds it
                      /\ ilock[-1] = -1
                      /\ flag' = [flag EXCEPT ![t] = flag[-1]]
                      /\ idx' = [idx EXCEPT ![t] = idx[-1]]
                      /\ Finish(t)
                 ELSE Goto(t, FirstPoint(op)) /\ UNCHANGED <<flag, idx>>
            /\ UNCHANGED <<cache, lock, nextId, tmp, bad, ilock>>
       \* ---- CachedSource::map
       [] p = "cached.map.get" ->
            IF MapSkipsHeldShard /\ lock[ShardOf[op.key]] # -1
              THEN \* the shape of seed C18-f: the lookup does not wait for a held shard, the call answers
                   \* with a map of its own (inner.map()) and leaves the cache alone - the answer is not
                   \* the value the cache holds (or is about to hold) for the option set
                   /\ nextId' = nextId + 1
                   /\ bad' = IF cache[op.key] = nextId THEN bad ELSE bad \cup {"MapAnswerIsCached"}
                   /\ Finish(t)
                   /\ UNCHANGED <<cache, lock, tmp, flag, idx, ilock>>
              ELSE
            /\ lock[ShardOf[op.key]] = -1          \* get() needs the shard
            /\ IF cache[op.key] # 0
                 THEN Finish(t) /\ UNCHANGED <<nextId, tmp>>   \* answers with cache[op.key]
                 ELSE /\ Goto(t, "cached.map.insert")
                      /\ tmp' = [tmp EXCEPT ![t] = nextId]     \* inner.map()
                      /\ nextId' = nextId + 1
            /\ UNCHANGED <<cache, lock, flag, idx, bad, ilock>>
       [] p = "cached.map.insert" ->
            /\ lock[ShardOf[op.key]] = -1
            /\ cache' = [cache EXCEPT ![op.key] =
                           IF @ = 0 \/ InsertOverwrites THEN tmp[t] ELSE @]
            /\ Finish(t)
            /\ UNCHANGED <<lock, nextId, tmp, flag, idx, bad, ilock>>
       \* ---- CachedSource::stream_chunks
       [] p = "cached.stream.entry" ->
            /\ lock[ShardOf[op.key]] = -1
            /\ lock' = [lock EXCEPT ![ShardOf[op.key]] = t]
            /\ Goto(t, IF cache[op.key] # 0 THEN "cached.stream.occupied"
                       ELSE "cached.stream.vacant")
            /\ UNCHANGED <<cache, nextId, tmp, flag, idx, bad, ilock>>
       [] p = "cached.stream.occupied" ->
            \* replay from the stored map, then the guard is dropped
            /\ lock' = [lock EXCEPT ![ShardOf[op.key]] = -1]
            /\ IF op.k = "pstream"
                 THEN Goto(t, "user.yield") /\ tmp' = [tmp EXCEPT ![t] = cache[op.key]]
                 ELSE Finish(t) /\ UNCHANGED tmp
            /\ UNCHANGED <<cache, nextId, flag, idx, bad, ilock>>
       [] p = "cached.stream.vacant" ->
            /\ Goto(t, "cached.stream.fill")
            /\ tmp' = [tmp EXCEPT ![t] = nextId]               \* inner stream
            /\ nextId' = nextId + 1
            /\ UNCHANGED <<cache, lock, flag, idx, bad, ilock>>
       [] p = "cached.stream.fill" ->
            /\ cache' = [cache EXCEPT ![op.key] = tmp[t]]
            /\ lock' = [lock EXCEPT ![ShardOf[op.key]] = -1]
            /\ IF op.k = "pstream"
                 THEN Goto(t, "user.yield") /\ tmp' = [tmp EXCEPT ![t] = -1]  \* nothing borrowed
                 ELSE Finish(t) /\ UNCHANGED tmp
            /\ UNCHANGED <<nextId, flag, idx, bad, ilock>>
       [] p = "user.yield" ->
            \* the parent still uses what it borrowed from the stored map
            /\ bad' = IF tmp[t] = -1 \/ cache[op.key] = tmp[t] THEN bad
                      ELSE bad \cup {"BorrowsLive"}
            /\ Finish(t)
            /\ UNCHANGED <<cache, lock, nextId, tmp, flag, idx, ilock>>
       \* ---- ReplaceSource lazy sort
       [] p = "replace.sort.load_flag" ->
            /\ Goto(t, IF flag[SortObj(t)] THEN "replace.read_index"
                       ELSE "replace.sort.store_index")
            /\ UNCHANGED <<cache, lock, nextId, tmp, flag, idx, bad, ilock>>
       [] p = "replace.sort.store_index" ->
            /\ ilock[SortObj(t)] = -1                      \* stored under the index mutex
            /\ idx' = [idx EXCEPT ![SortObj(t)] = "fresh"]
            /\ Goto(t, "replace.sort.store_flag")
            /\ UNCHANGED <<cache, lock, nextId, tmp, flag, bad, ilock>>
       [] p = "replace.sort.store_flag" ->
            /\ flag' = [flag EXCEPT ![SortObj(t)] = TRUE]
            /\ Goto(t, "replace.read_index")
            /\ UNCHANGED <<cache, lock, nextId, tmp, idx, bad, ilock>>
       [] p = "replace.read_index" ->
            \* takes the index mutex and keeps it while it collects the references
            /\ ilock[SortObj(t)] = -1
            /\ ilock' = [ilock EXCEPT ![SortObj(t)] = t]
            /\ Goto(t, "replace.index.locked")
            /\ UNCHANGED <<cache, lock, nextId, tmp, flag, idx, bad>>
       [] p = "replace.index.locked" ->
            /\ bad' = IF idx[SortObj(t)] = "fresh" THEN bad ELSE bad \cup {"ReadsFresh"}
            /\ ilock' = [ilock EXCEPT ![SortObj(t)] = -1]
            /\ Finish(t)
            /\ UNCHANGED <<cache, lock, nextId, tmp, flag, idx>>

Next == \E t \in Threads : pc[t] # "done" /\ Release(t)

AllDone == \A t \in Threads : pc[t] = "done"

Spec == Init /\ [][Next]_vars
FairSpec == Spec /\ \A t \in Threads : WF_vars(pc[t] # "done" /\ Release(t))

-----------------------------------------------------------------------------
(* properties                                                               *)
WriteOnce == [][\A k \in Keys : cache[k] # 0 => cache'[k] = cache[k]]_vars
NoMonitorFired == bad = {}
CloneOK == \A o \in Objects : flag[o] => idx[o] = "fresh"
(* a thread that is not done can always be released eventually: no state    *)
(* in which every unfinished thread waits for a lock                        *)
NoDeadlock == AllDone \/ \E t \in Threads : pc[t] # "done" /\ ENABLED Release(t)
Termination == <>AllDone

(* the schedule so far is history, not behaviour: hidden from the state     *)
(* graph when model checking                                                *)
ViewNoHist == <<prog, pc, opi, cache, lock, nextId, tmp, flag, idx, ilock, bad>>

(* generation of schedules: every terminal behaviour is one schedule        *)
EmitSchedule ==
  AllDone => PrintT("SCHED " \o ToJson(<<prog, hist>>))
=============================================================================
