-------------------------------- MODULE TreeM --------------------------------
(***************************************************************************)
(* The implementation-shaped models put together: what stream_chunks of a   *)
(* whole source tree delivers, by value - chunks [x, gl, gc, a] with a the  *)
(* attribution record of SMap (file, content, line, column, name as values, *)
(* the form Attr!StreamChunks reads a recorded stream into).                *)
(*   Raw*, OriginalSource      LeafM                                       *)
(*   SourceMapSource           SplitM (four modes) through its own tables  *)
(*   ... with an inner map     CombineM                                    *)
(*   ConcatSource              offsets, need_to_close / last_mapping_line  *)
(*                             (as ConcatM, here with attributions), the    *)
(*                             one-child shortcut, flattened children       *)
(*   ReplaceSource             ReplaceM (always streams its inner source    *)
(*                             in normal mode and always delivers text)     *)
(*   Box                       transparent                                 *)
(* A CachedSource answers from its history and is not part of this model    *)
(* (kind "unmodelled"), nor are user-defined children.                      *)
(* Preds compares every recorded stream of a modelled tree with StreamV     *)
(* (MODEL-DRIFT only).                                                      *)
(***************************************************************************)
EXTENDS Naturals, Integers, Sequences, FiniteSets, SequencesExt, FiniteSetsExt, Functions,
        Text, Vlq, SMap, Sem, Attr, EncM, SplitM, ReplaceM, CombineM, LeafM, HashM

InnerTextM(t) ==
  IF t.osrc # <<>> THEN t.osrc[1]
  ELSE LET is == {i \in 1..Len(t.map.sources) : FileOf(t.map, i - 1) = t.name}
       IN IF is = {} THEN <<>> ELSE ContentOf(t.map, Min(is) - 1)
C09DomainM(t) ==
  /\ IsAscii(t.b) /\ MapConsistent(t.map, t.b)
  /\ (t.osrc # <<>> \/ \E i \in 1..Len(t.map.sources) : FileOf(t.map, i - 1) = t.name /\ HasContent(t.map, i - 1))
  /\ IsAscii(InnerTextM(t)) /\ MapConsistent(t.inner[1], InnerTextM(t))

ModelledTree(t) == Kinds(t) \subseteq {"raw", "orig", "sms", "concat", "replace", "box"}

(* TLC integers are 32-bit: the encoder model needs room for the deltas      *)
SmallSegs(map) ==
  LET segs == DecodeMappings(map.m)
  IN \A i \in 1..Len(segs) : segs[i].ol <= 1073741824 /\ segs[i].oc <= 1073741824

(* where the models apply: ASCII texts, maps consistent with their texts     *)
RECURSIVE TreeMDomain(_)
TreeMDomain(t) ==
  CASE t.k \in {"raw", "orig"} -> IsAscii(t.b)
    [] t.k = "sms" -> IF t.inner = <<>> THEN AsciiConsistent(t) /\ SmallSegs(t.map)
                      ELSE C09DomainM(t) /\ SmallSegs(t.map) /\ SmallSegs(t.inner[1])
    [] t.k = "concat" -> LET ch == Children(t) IN \A i \in 1..Len(ch) : TreeMDomain(ch[i])
    [] t.k = "box" -> TreeMDomain(t.inner)
    [] t.k = "replace" -> TreeMDomain(t.inner) /\ \A i \in 1..Len(t.repls) : IsAscii(t.repls[i].c) /\ t.repls[i].s <= t.repls[i].e
    [] OTHER -> FALSE

VChunk(x, gl, gc, a) == [x |-> x, gl |-> gl, gc |-> gc, a |-> a]
OfLeafEv(e, a) == VChunk(IF e.x = <<>> THEN <<>> ELSE e.x[1], e.gl, e.gc, a)

(* the events a SourceMapSource without inner map emits: its tables first,  *)
(* then the chunks of the splitter for the mode                             *)
SmsEvents(t, columns, final) ==
  IF t.b = <<>> THEN <<>>
  ELSE LET map == t.map
           cs == SplitBy(t.b, DecodeMappings(map.m), columns, final)
       IN [i \in 1..Len(map.sources) |-> SEv(i - 1, FileOf(map, i - 1), ContentOpt(map, i - 1))]
          \o (IF columns THEN [i \in 1..Len(map.names) |-> NEv(i - 1, map.names[i]) ] ELSE <<>>)
          \o [k \in 1..Len(cs) |->
                CEv(IF final THEN <<>> ELSE <<cs[k].x>>, cs[k].gl, cs[k].gc,
                    IF cs[k].s.si < 0 THEN <<>> ELSE <<cs[k].s.si, cs[k].s.ol, cs[k].s.oc, cs[k].s.ni>>)]

OrigAttr(t, o) ==
  IF o = <<>> THEN Unmapped
  ELSE [m |-> TRUE, f |-> t.name, hc |-> t.b # <<>>, ct |-> t.b, l |-> o[2], c |-> o[3],
        hn |-> FALSE, n |-> <<>>]

(* ConcatSource over the by-value streams of its (real) children            *)
ConcatV(streams, final) ==
  LET closing(st) == VChunk(<<>>, st.lineOff + 1, st.colOff, Unmapped)
      onChunk(st, c) ==
        LET line == c.gl + st.lineOff
            col == IF c.gl = 1 THEN c.gc + st.colOff ELSE c.gc
            closes == st.needClose /\ (c.gl # 1 \/ c.gc # 0)
            out1 == IF closes THEN Append(st.out, closing(st)) ELSE st.out
        IN [st EXCEPT !.needClose = FALSE, !.last = IF c.a.m THEN c.gl ELSE 0,
                      \* (no text is passed on in final-source mode)
                      !.out = Append(out1, [c EXCEPT !.gl = line, !.gc = col,
                                                     !.x = IF final THEN <<>> ELSE @])]
      onChild(st0, s) ==
        LET st == FoldLeft(onChunk, [st0 EXCEPT !.last = 0], s.chunks)
            gl == s.end[1]
            gc == s.end[2]
            closes == st.needClose /\ (gl # 1 \/ gc # 0)
        IN [st EXCEPT !.out = IF closes THEN Append(st.out, closing(st)) ELSE st.out,
                      !.colOff = IF gl > 1 THEN gc ELSE st.colOff + gc,
                      !.needClose = (IF closes THEN FALSE ELSE st.needClose) \/ (final /\ st.last = gl),
                      !.lineOff = st.lineOff + gl - 1]
      fin == FoldLeft(onChild, [lineOff |-> 0, colOff |-> 0, needClose |-> FALSE, last |-> 0, out |-> <<>>],
                      streams)
  IN [kind |-> "ok", chunks |-> fin.out, end |-> <<fin.lineOff + 1, fin.colOff>>]

RECURSIVE StreamV(_, _, _)
StreamV(t, columns, final) ==
  CASE t.k = "raw" ->
         LET s == RawStream(TextOf(t), final)
         IN [kind |-> "ok", chunks |-> [i \in 1..Len(s.ev) |-> OfLeafEv(s.ev[i], Unmapped)], end |-> s.end]
    [] t.k = "orig" ->
         LET s == OrigStream(t.b, columns, final)
         IN [kind |-> "ok", chunks |-> [i \in 1..Len(s.ev) |-> OfLeafEv(s.ev[i], OrigAttr(t, s.ev[i].o))],
             end |-> s.end]
    [] t.k = "sms" /\ t.inner = <<>> ->
         [kind |-> "ok", chunks |-> StreamChunks(SmsEvents(t, columns, final)),
          end |-> IF t.b = <<>> THEN <<1, 0>> ELSE EndPos(t.b)]
    [] t.k = "sms" ->
         LET s == CombineStream(t, columns, final)
         IN [kind |-> "ok", chunks |-> StreamChunks(s.ev), end |-> s.end]
    [] t.k = "concat" ->
         LET ch == HChildren(t)
             ss == [i \in 1..Len(ch) |-> StreamV(ch[i], columns, final)]
         IN IF \E i \in 1..Len(ch) : ss[i].kind # "ok" THEN [kind |-> "unmodelled", chunks |-> <<>>, end |-> <<1, 0>>]
            ELSE IF Len(ch) = 1 THEN ss[1]
            ELSE ConcatV(ss, final)
    [] t.k = "replace" ->
         LET inner == StreamV(t.inner, columns, FALSE)
         IN IF inner.kind # "ok" THEN inner
            ELSE LET r == ReplaceStream(inner.chunks, inner.end, Sorted(t.repls))
                 IN [kind |-> "ok", chunks |-> r.chunks, end |-> r.end]
    [] t.k = "box" -> StreamV(t.inner, columns, final)
    [] OTHER -> [kind |-> "unmodelled", chunks |-> <<>>, end |-> <<1, 0>>]
=============================================================================
