CONSTANTS
  Threads <- T3
  Programs <- Programs3x1
  ShardOf <- OwnShards
  InsertOverwrites = FALSE
  MapSkipsHeldShard = FALSE
SPECIFICATION FairSpec
INVARIANTS NoMonitorFired CloneOK NoDeadlock
PROPERTIES WriteOnce Termination
VIEW ViewNoHist
CHECK_DEADLOCK FALSE
