------------------------------- MODULE Compose ------------------------------
(***************************************************************************)
(* Declarative composition of an outer map (generated text -> sources, one  *)
(* of which is the "inner source") with an inner map (inner source ->       *)
(* original files): what property C09 says map() of a SourceMapSource with  *)
(* an inner source map must attribute every position to.  Nothing here      *)
(* follows the library's index tables or binary search.                     *)
(***************************************************************************)
EXTENDS Naturals, Integers, Sequences, FiniteSets, SequencesExt,
        FiniteSetsExt, Functions, Text, Vlq, SMap, Sem, Attr

(* the text of the inner source: the supplied original source, else the     *)
(* content the outer map carries for it                                     *)
InnerText(t) ==
  IF t.osrc # <<>> THEN t.osrc[1]
  ELSE LET is == {i \in 1..Len(t.map.sources) : FileOf(t.map, i - 1) = t.name}
       IN IF is = {} THEN <<>> ELSE ContentOf(t.map, Min(is) - 1)

HasInnerText(t) ==
  \/ t.osrc # <<>>
  \/ \E i \in 1..Len(t.map.sources) :
       FileOf(t.map, i - 1) = t.name /\ HasContent(t.map, i - 1)

C09Domain(t) ==
  /\ t.k = "sms" /\ t.inner # <<>>
  /\ IsAscii(t.b) /\ MapConsistent(t.map, t.b)
  /\ HasInnerText(t)
  /\ IsAscii(InnerText(t)) /\ MapConsistent(t.inner[1], InnerText(t))
  /\ SharedNamesAgreeInTree(t)

(* text of file content ct at (line, col) of length n, or <<>> if not there *)
TextAt(ct, line, col, n) ==
  LET ls == Lines(ct)
  IN IF line >= 1 /\ line <= Len(ls) /\ col + n <= Len(ls[line])
       THEN SubSeq(ls[line], col + 1, col + n) ELSE <<>>

(* Is `got` an acceptable attribution for an outer attribution `o` (by      *)
(* value) of a SourceMapSource t?                                           *)
ComposeOK(t, o, got) ==
  LET inner == t.inner[1]
      isegs == DecodeMappings(inner.m)
  IN IF ~o.m THEN ~got.m
     ELSE IF o.f # t.name THEN Full(got) = Full(o)              \* passes through
     ELSE
       LET j == CoverIdx(isegs, o.l, o.c)
           a == IF j = 0 THEN Unmapped ELSE SegAttr(inner, isegs[j])
       IN IF a.m THEN
            LET off == o.c - isegs[j].gc
                nameOK ==
                  IF got.hn THEN
                    \/ (a.hn /\ got.n = a.n)
                    \/ (o.hn /\ got.n = o.n /\ a.hc
                        /\ TextAt(a.ct, a.l, got.c, Len(o.n)) = o.n)
                  ELSE ~(a.hn /\ got.c = a.c)
            IN /\ got.m
               /\ <<got.f, got.hc, got.ct, got.l>> = <<a.f, a.hc, a.ct, a.l>>
               /\ got.c >= a.c /\ got.c <= a.c + off
               /\ nameOK
          ELSE IF t.remove THEN ~got.m
          ELSE /\ got.m
               /\ <<got.f, got.l, got.c>> = <<t.name, o.l, o.c>>
               /\ got.ct = InnerText(t)

ComposeColumnsOK(t, optmap) ==
  LET outer == ByteAttrsOfMap(t.map, t.b)
      got == ByteAttrsOfOptMap(optmap, t.b)
  IN \A i \in 1..Len(t.b) : ComposeOK(t, outer[i], got[i])

(* columns = false: per output line, (file, line) only                      *)
ComposeLinesOK(t, optmap) ==
  LET osegs == DecodeMappings(t.map.m)
      inner == t.inner[1]
      isegs == DecodeMappings(inner.m)
      got == LineAttrsOfOptMap(optmap, t.b)
      expected(ln) ==
        LET o == ResolveLine(t.map, osegs, ln)
        IN IF ~o.m THEN LineOnly(Unmapped)
           ELSE IF o.f # t.name THEN LineOnly(o)
           ELSE LET a == ResolveLine(inner, isegs, o.l)
                IN IF a.m THEN LineOnly(a)
                   ELSE IF t.remove THEN LineOnly(Unmapped)
                   ELSE <<TRUE, t.name, o.l>>
  IN \A ln \in 1..NumLines(t.b) : got[ln] = expected(ln)
=============================================================================
