----------------------------- MODULE IoScripts -----------------------------
(* The answers a scripted writer gives to its first calls (see IoM.tla):    *)
(* n > 0 takes at most n bytes, 0 = Ok(0), -1 = hard error, -2 = Interrupted *)
EXTENDS Naturals, Integers, Sequences
Answers == {1, 2, 5, 0, -1, -2}
ScriptsUpTo(n) == UNION {[1..k -> Answers] : k \in 0..n}
=============================================================================
