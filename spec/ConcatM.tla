------------------------------- MODULE ConcatM ------------------------------
(***************************************************************************)
(* Implementation-shaped model of ConcatSource::stream_chunks in the        *)
(* text-less final-source mode that map() uses (src/concat_source.rs):      *)
(* line / column offsets carried from child to child, the need_to_close     *)
(* flag and last_mapping_line, one step per child event and one per child   *)
(* end.  A child is [text, ev, end]: ev = its final-mode events             *)
(* [gl, gc, s] (s.si = -1: unmapped) and end = its generated end.           *)
(* MC_ConcatM checks the design: encoding the events the model emits        *)
(* (EncM) and resolving every position of the concatenated text gives what  *)
(* the child that contributed the position attributes to it.  The argument  *)
(* fwd = FALSE is the code before the F2 repair (unmapped                   *)
(* events dropped): TLC refutes it.                                         *)
(***************************************************************************)
EXTENDS Naturals, Integers, Sequences, FiniteSets, SequencesExt,
        FiniteSetsExt, Text, Vlq, SMap, EncM

Unm(gl, gc) == [gl |-> gl, gc |-> gc, si |-> -1, ol |-> 0, oc |-> 0, ni |-> -1]

CInit == [lineOff |-> 0, colOff |-> 0, needClose |-> FALSE, last |-> 0, out |-> <<>>]

OnEvent(fwd, st, m) ==
  LET line == m.gl + st.lineOff
      col == IF m.gl = 1 THEN m.gc + st.colOff ELSE m.gc
      closing == st.needClose /\ (m.gl # 1 \/ m.gc # 0)
      out1 == IF closing THEN Append(st.out, Unm(st.lineOff + 1, st.colOff)) ELSE st.out
      mapped == m.si >= 0
      out2 == IF mapped THEN Append(out1, [m EXCEPT !.gl = line, !.gc = col])
              ELSE IF fwd THEN Append(out1, Unm(line, col))
              ELSE out1
  IN [st EXCEPT !.needClose = FALSE, !.last = IF mapped THEN m.gl ELSE 0, !.out = out2]

OnChild(fwd, st0, child) ==
  LET st == FoldLeft(LAMBDA a, m : OnEvent(fwd, a, m), [st0 EXCEPT !.last = 0], child.ev)
      gl == child.end[1]
      gc == child.end[2]
      closing == st.needClose /\ (gl # 1 \/ gc # 0)
      out1 == IF closing THEN Append(st.out, Unm(st.lineOff + 1, st.colOff)) ELSE st.out
      need1 == IF closing THEN FALSE ELSE st.needClose
  IN [st EXCEPT !.out = out1,
                !.colOff = IF gl > 1 THEN gc ELSE st.colOff + gc,
                !.needClose = need1 \/ (st.last = gl),
                !.lineOff = st.lineOff + gl - 1]

ConcatFinalV(fwd, children) == FoldLeft(LAMBDA a, c : OnChild(fwd, a, c), CInit, children)
ConcatFinal(children) == ConcatFinalV(TRUE, children)

(* the normal mode (text passes through, no closing events): a child is     *)
(* [text, evn, end] with evn = its chunks [gl, gc, si, ol, oc, ni, x]        *)
OnEventN(st, m) ==
  LET line == m.gl + st.lineOff
      col == IF m.gl = 1 THEN m.gc + st.colOff ELSE m.gc
  IN [st EXCEPT !.out = Append(@, [m EXCEPT !.gl = line, !.gc = col])]
OnChildN(st0, child) ==
  LET st == FoldLeft(OnEventN, st0, child.evn)
      gl == child.end[1]
      gc == child.end[2]
  IN [st EXCEPT !.colOff = IF gl > 1 THEN gc ELSE st.colOff + gc,
                !.lineOff = st.lineOff + gl - 1]
ConcatNormal(children) == FoldLeft(OnChildN, CInit, children)

-----------------------------------------------------------------------------
RawOfSeg(s) == IF s.si < 0 THEN <<-1, 0, 0, -1>> ELSE <<s.si, s.ol, s.oc, s.ni>>
ResolveEvs(evs, line, col) ==
  LET dec == DecodeMappings(EncodeFullM(evs))
      i == CoverIdx(dec, line, col)
  IN IF i = 0 THEN <<-1, 0, 0, -1>> ELSE RawOfSeg(dec[i])

(* every position of the concatenation is attributed as by its own child    *)
ConcatOK(fwd, children) ==
  LET texts == [k \in 1..Len(children) |-> children[k].text]
      whole == Concat(texts)
      pt == PosTable(whole)
      res == ConcatFinalV(fwd, children)
      offs == FoldLeft(LAMBDA acc, t : <<Append(acc[1], acc[2]), acc[2] + Len(t)>>,
                       <<<<>>, 0>>, texts)[1]
  IN /\ <<res.lineOff + 1, res.colOff>> = EndPos(whole)
     /\ \A k \in 1..Len(children) :
          LET cpt == PosTable(texts[k])
          IN \A i \in 1..Len(texts[k]) :
               ResolveEvs(res.out, pt[offs[k] + i][1], pt[offs[k] + i][2])
                 = ResolveEvs(children[k].ev, cpt[i][1], cpt[i][2])

(* normal mode: the chunks of the children in order, each where it really   *)
(* is in the concatenation, with the attribution its child gave it          *)
ConcatNormalOK(children) ==
  LET texts == [k \in 1..Len(children) |-> children[k].text]
      whole == Concat(texts)
      pt == PosTable(whole)
      res == ConcatNormal(children)
      all == Concat([k \in 1..Len(children) |-> children[k].evn])
      offs == FoldLeft(LAMBDA acc, e : <<Append(acc[1], acc[2]), acc[2] + Len(e.x)>>,
                       <<<<>>, 0>>, res.out)[1]
  IN /\ <<res.lineOff + 1, res.colOff>> = EndPos(whole)
     /\ Concat([i \in 1..Len(res.out) |-> res.out[i].x]) = whole
     /\ Len(res.out) = Len(all)
     /\ \A i \in 1..Len(res.out) :
          /\ res.out[i].x = <<>> \/ <<res.out[i].gl, res.out[i].gc>> = pt[offs[i] + 1]
          /\ RawOfSeg(res.out[i]) = RawOfSeg(all[i]) /\ res.out[i].x = all[i].x
=============================================================================
