------------------------------ MODULE IndexM ------------------------------
(* The lazily sorted index of a ReplaceSource, shaped like the code            *)
(* (src/replace_source.rs):                                                    *)
(*   replacements : the calls in the order they were made (never reordered)    *)
(*   sorted_index : a permutation of 1..Len(replacements), behind a mutex      *)
(*   is_sorted    : "sorted_index is current"                                  *)
(* replace / insert / replace_with_enforce push and clear the flag; every      *)
(* observer (source, rope, streams, Hash, Debug) goes through                  *)
(* sorted_replacement(): sort if the flag is clear, then read through the      *)
(* index; Clone copies all three.  What a user relies on (C05, C14, C20): the  *)
(* order an observer sees is a function of `replacements` alone - the stable   *)
(* order by key - whatever observers ran in between and on whichever copy.     *)
(* Variant selects the unmodified design or one of the shortcuts the seeded    *)
(* changes C05-c / C14-b, C14-d, C18-c took; TLC refutes each of them.         *)
EXTENDS Naturals, Sequences, FiniteSets

CONSTANTS Keys,        \* keys (start, end, enforce) abstracted to naturals
          Objs,        \* object identities (the original and clones)
          MaxCalls,    \* bound on Len(replacements) per object
          Variant      \* "code" | "push_keeps_flag_if_ge_last_pushed" |
                       \* "push_keeps_flag_if_ge_sorted_last" | "clone_without_index" |
                       \* "sort_unstable"

VARIABLES live,        \* objects that exist
          repls,       \* obj -> Seq(Keys)
          index,       \* obj -> Seq(Nat)
          flag,        \* obj -> BOOLEAN
          seen         \* obj -> the order the last observer read, or <<>> before any

vars == <<live, repls, index, flag, seen>>

(* the stable order by key: position i before j iff key smaller, or equal and i < j *)
Before(r, i, j) == r[i] < r[j] \/ (r[i] = r[j] /\ i < j)
IsPerm(p, n) == Len(p) = n /\ {p[i] : i \in 1..n} = 1..n
StableIndex(r) ==
  CHOOSE p \in [1..Len(r) -> 1..Len(r)] :
    /\ IsPerm(p, Len(r))
    /\ \A a, b \in 1..Len(r) : a < b => Before(r, p[a], p[b])
(* any order by key, equal keys in any order (an unstable sort)               *)
SortedIndexes(r) ==
  {p \in [1..Len(r) -> 1..Len(r)] :
     /\ IsPerm(p, Len(r))
     /\ \A a, b \in 1..Len(r) : a < b => r[p[a]] <= r[p[b]]}

Init ==
  /\ live = {CHOOSE o \in Objs : TRUE}
  /\ repls = [o \in Objs |-> <<>>]
  /\ index = [o \in Objs |-> <<>>]
  /\ flag = [o \in Objs |-> TRUE]          \* ReplaceSource::new: is_sorted = true, empty index
  /\ seen = [o \in Objs |-> <<>>]

Push(o, k) ==
  /\ o \in live /\ Len(repls[o]) < MaxCalls
  /\ repls' = [repls EXCEPT ![o] = Append(@, k)]
  /\ IF \/ /\ Variant = "push_keeps_flag_if_ge_last_pushed" /\ flag[o]
               /\ (repls[o] = <<>> \/ repls[o][Len(repls[o])] <= k)
           \* the shortcut done right: compare with the last call IN SORTED ORDER
           \/ /\ Variant = "push_keeps_flag_if_ge_sorted_last" /\ flag[o]
               /\ (repls[o] = <<>> \/ repls[o][index[o][Len(index[o])]] <= k)
       THEN /\ index' = [index EXCEPT ![o] = Append(@, Len(repls[o]) + 1)]
            /\ flag' = flag
       ELSE /\ index' = index
            /\ flag' = [flag EXCEPT ![o] = FALSE]
  /\ seen' = [seen EXCEPT ![o] = <<>>]      \* what was read before the call is history
  /\ UNCHANGED live

(* sort_replacement + sorted_replacement: one observer call                    *)
Observe(o) ==
  /\ o \in live
  /\ \E p \in (IF flag[o] THEN {index[o]}
               ELSE IF Variant = "sort_unstable" THEN SortedIndexes(repls[o])
               ELSE {StableIndex(repls[o])}) :
       /\ index' = [index EXCEPT ![o] = p]
       /\ flag' = [flag EXCEPT ![o] = TRUE]
       \* reading through the index: an index that is not a permutation of the calls would
       \* panic (out of range) or drop calls; recorded as read
       /\ seen' = [seen EXCEPT ![o] = <<p>>]
  /\ UNCHANGED <<live, repls>>

Clone(o, c) ==
  /\ o \in live /\ c \in Objs \ live
  /\ live' = live \cup {c}
  /\ repls' = [repls EXCEPT ![c] = repls[o]]
  /\ index' = [index EXCEPT ![c] = IF Variant = "clone_without_index" THEN <<>> ELSE index[o]]
  /\ flag' = [flag EXCEPT ![c] = flag[o]]
  /\ seen' = [seen EXCEPT ![c] = <<>>]

Next ==
  \/ \E o \in Objs, k \in Keys : Push(o, k)
  \/ \E o \in Objs : Observe(o)
  \/ \E o, c \in Objs : Clone(o, c)

Spec == Init /\ [][Next]_vars

-----------------------------------------------------------------------------
TypeOK ==
  /\ live \subseteq Objs
  /\ \A o \in Objs : Len(repls[o]) <= MaxCalls /\ flag[o] \in BOOLEAN

(* the representation invariant the code relies on                            *)
FlagMeansCurrent ==
  \A o \in live : flag[o] => index[o] = StableIndex(repls[o])

(* what the user relies on: whatever an observer read is the stable order of  *)
(* the calls made so far - history and copies do not show                     *)
ObserversSeeStableOrder ==
  \A o \in live : seen[o] # <<>> /\ flag[o] => seen[o][1] = StableIndex(repls[o])

(* two live objects with the same calls answer alike once both were observed  *)
EqualCallsEqualAnswers ==
  \A a, b \in live :
    repls[a] = repls[b] /\ flag[a] /\ flag[b] /\ seen[a] # <<>> /\ seen[b] # <<>>
      => seen[a] = seen[b]
=============================================================================
