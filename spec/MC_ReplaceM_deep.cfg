CONSTANT Deep = TRUE
SPECIFICATION Spec
INVARIANT DesignOK
CHECK_DEADLOCK FALSE
