CONSTANTS
  PieceLists <- Lists
  KeepGoing = TRUE
SPECIFICATION Spec
INVARIANTS PrefixOnly OkMeansAll NoCallAfterError ErrorIsReturned
PROPERTY Terminates
CHECK_DEADLOCK FALSE
