------------------------------- MODULE MC_TreeC ------------------------------
(***************************************************************************)
(* Property C10 on the model: for every history of up to three calls (map   *)
(* and stream, both column settings, normal and final-source mode, on a      *)
(* CachedSource and on a ConcatSource that contains it) every answer of the  *)
(* cache-aware model attributes every position as the uncached tree does.    *)
(* Wrapped trees without a CachedSource beneath a ReplaceSource (that is     *)
(* K1, see MC_K1).                                                          *)
(***************************************************************************)
EXTENDS TreeC, TLC

cA == 97
cB == 98
cX == 120
cSC == 59
FileA == <<97, 46, 106, 115>>
Raw(b) == [k |-> "raw", sub |-> "str", b |-> b]
Orig(b, n) == [k |-> "orig", b |-> b, name |-> n]
CC(ch) == [k |-> "concat", mode |-> "boxed", ch |-> ch]
Rp(s, e, c) == [s |-> s, e |-> e, c |-> c, n |-> <<>>, enf |-> 1, api |-> "replace"]
Seg(gl, gc, o) == [gl |-> gl, gc |-> gc, si |-> o[1], ol |-> o[2], oc |-> o[3], ni |-> o[4]]
Sms == [k |-> "sms", b |-> <<cA, 32, cB, NL, cA>>, name |-> <<103>>,
        map |-> [m |-> EncodeSegs(<<Seg(1, 0, <<0, 1, 0, -1>>), Seg(1, 2, <<0, 1, 2, 0>>), Seg(1, 3, <<-1, 0, 0, -1>>),
                                     Seg(2, 0, <<0, 2, 0, -1>>)>>),
                 sources |-> <<FileA>>, contents |-> <<<<cA, 32, cB, NL, cA>>>>, names |-> <<<<110>>>>,
                 root |-> <<>>, file |-> <<>>, dbg |-> <<>>],
        inner |-> <<>>, osrc |-> <<>>, remove |-> FALSE]
Wrapped ==
  {Orig(<<cA, cSC, NL, cB>>, <<111>>),
   CC(<<Orig(<<cA>>, <<111>>), Raw(<<cB, NL>>), Orig(<<99>>, <<112>>)>>),
   [k |-> "replace", inner |-> Orig(<<cA, cA, NL, cA>>, <<111>>), repls |-> <<Rp(1, 2, <<cX, NL>>)>>],
   Sms,
   CC(<<Orig(<<cA>>, <<111>>), Raw(<<>>), Raw(<<cB>>)>>)}

Cached(x) == [k |-> "cached", cid |-> <<1>>, inner |-> x]
Parent(x) == CC(<<Cached(x), Raw(<<cX>>)>>)
PureParent(x) == CC(<<x, Raw(<<cX>>)>>)

\* a call: <<on parent?, "map" / "stream", columns, final>>
Calls == {<<p, "map", c, FALSE>> : p \in BOOLEAN, c \in BOOLEAN}
         \cup {<<FALSE, "stream", c, f>> : c \in BOOLEAN, f \in BOOLEAN}
         \cup {<<TRUE, "stream", c, FALSE>> : c \in BOOLEAN}

VARIABLES x, hist
Init == x \in Wrapped /\ hist \in UNION {[1..n -> Calls] : n \in 1..3}
Next == UNCHANGED <<x, hist>>
Spec == Init /\ [][Next]_<<x, hist>>

TreeOfCall(c) == IF c[1] THEN Parent(x) ELSE Cached(x)
PureOfCall(c) == IF c[1] THEN PureParent(x) ELSE x

\* the caches after the first k calls
RECURSIVE After(_)
After(k) ==
  IF k = 0 THEN EmptyF
  ELSE LET c == hist[k]
           cs == After(k - 1)
       IN IF c[2] = "map" THEN MapC(TreeOfCall(c), c[3], cs).cs
          ELSE StreamC(TreeOfCall(c), c[3], c[4], cs).cs

AnswerOK(k) ==
  LET c == hist[k]
      cs == After(k - 1)
      t == TreeOfCall(c)
      p == PureOfCall(c)
      text == TextOf(p)
  IN IF c[2] = "map"
       THEN LET m == MapC(t, c[3], cs)
                pure == StreamV(p, c[3], FALSE)
            IN /\ m.ok
               /\ IF c[3] THEN SameCore(ByteAttrsOfOptMap(m.m, text), ByteAttrsOfStream(pure.chunks))
                  ELSE LineAttrsOfOptMap(m.m, text) = LineAttrsOfStream(pure.chunks)
       ELSE LET s == StreamC(t, c[3], c[4], cs).s
                pure == StreamV(p, c[3], c[4])
            IN /\ s.kind = "ok" /\ s.end = pure.end
               /\ IF c[4] THEN TRUE      \* final-source events: judged through map() above
                  ELSE /\ StreamText(s.chunks) = text
                       /\ IF c[3] THEN SameCore(ByteAttrsOfStream(s.chunks), ByteAttrsOfStream(pure.chunks))
                          ELSE LineAttrsOfStream(s.chunks) = LineAttrsOfStream(pure.chunks)

Transparent == \A k \in 1..Len(hist) : AnswerOK(k)
=============================================================================
