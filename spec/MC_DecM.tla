------------------------------- MODULE MC_DecM -------------------------------
EXTENDS DecM, TLC
CONSTANT MaxLen
\* A = 0, C = +1, D = -1, E = +2, g = continuation with 0 bits, i = continuation with bits 2, '!' junk
Alphabet == {65, 67, 68, 69, 103, 105, COMMA, SEMI, 33}
VARIABLE s
\* (not a UNION of the function sets: TLC refuses to build a set of more than 10^6 elements, and
\* enumerates a function set in an initial predicate without building it)
Init == \E n \in 0..MaxLen : s \in [1..n -> Alphabet]
Next == UNCHANGED s
Spec == Init /\ [][Next]_s
DesignOK ==
  LET m == DecodeM(s)
  IN /\ m.pos = 0                        \* total: every string is consumed to its end
     \* the model declines (big) only where a value leaves its 30-bit range: in this alphabet that
     \* takes six continuation digits and a seventh digit with bits set
     /\ (WellFormedMappings(s) /\ m.big) => Len(s) >= 7
     /\ (WellFormedMappings(s) /\ ~m.big) => m.out = DecodeMappings(s)
=============================================================================
