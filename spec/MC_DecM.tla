------------------------------- MODULE MC_DecM -------------------------------
EXTENDS DecM, TLC
CONSTANT MaxLen
\* A = 0, C = +1, D = -1, E = +2, g = continuation with 0 bits, i = continuation with bits 2, '!' junk
Alphabet == {65, 67, 68, 69, 103, 105, COMMA, SEMI, 33}
Strings == UNION {[1..n -> Alphabet] : n \in 0..MaxLen}
VARIABLE s
Init == s \in Strings
Next == UNCHANGED s
Spec == Init /\ [][Next]_s
DesignOK ==
  LET m == DecodeM(s)
  IN /\ m.pos = 0                        \* total: every string is consumed to its end
     /\ WellFormedMappings(s) => (~m.big /\ m.out = DecodeMappings(s))
=============================================================================
