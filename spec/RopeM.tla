-------------------------------- MODULE RopeM --------------------------------
(***************************************************************************)
(* Implementation-shaped model of the Rope representation (src/rope.rs):    *)
(* the one-string form and the many-piece form with the start offset of     *)
(* every piece, as the constructors and byte_slice build them - new, from,  *)
(* from_iter, add, append (all four combinations of forms; an empty          *)
(* one-string rope ADOPTS a many-piece argument with its offsets as they     *)
(* are), get_byte_slice (the two binary searches by start / end offset, the  *)
(* same-piece case, trimming of the first and last piece, renumbering,       *)
(* from_pieces dropping empty pieces) and the lines() iterator.              *)
(*   repr = [full |-> BOOLEAN, ps |-> sequence of <<text, start offset>>]    *)
(* MC_RopeM checks the design against the flat-string meaning (Rope!FlatOf)  *)
(* and the representation invariant the unchecked indexing relies on: no     *)
(* empty piece, offsets cumulative from 0.                                   *)
(***************************************************************************)
EXTENDS Naturals, Integers, Sequences, FiniteSets, SequencesExt, FiniteSetsExt, Text, Rope

(* results: kind "ok" (a representation), "invalid" (the call answers None) *)
(* or "unmodelled"                                                          *)
InvalidR == [kind |-> "invalid", full |-> FALSE, ps |-> <<>>]
Unmodelled == [kind |-> "unmodelled", full |-> FALSE, ps |-> <<>>]
Light(t) == [kind |-> "ok", full |-> FALSE, ps |-> <<<<t, 0>>>>]
(* from_pieces: pieces are never empty and there is always at least one      *)
FromPieces(ps) ==
  LET keep == SelectSeq(ps, LAMBDA p : p[1] # <<>>)
  IN IF keep = <<>> THEN Light(<<>>) ELSE [kind |-> "ok", full |-> TRUE, ps |-> keep]
EndOfPs(ps) == IF ps = <<>> THEN 0 ELSE ps[Len(ps)][2] + Len(ps[Len(ps)][1])
LenR(r) == IF r.full THEN EndOfPs(r.ps) ELSE Len(r.ps[1][1])
TextOfR(r) == Concat([i \in 1..Len(r.ps) |-> r.ps[i][1]])
Renumber(ps, from) ==
  LET step(acc, p) == <<Append(acc[1], <<p[1], acc[2]>>), acc[2] + Len(p[1])>>
  IN FoldLeft(step, <<<<>>, from>>, ps)[1]

Number(texts, from) == Renumber([i \in 1..Len(texts) |-> <<texts[i], 0>>], from)

AddR(r, v) ==
  IF v = <<>> THEN r
  ELSE IF ~r.full
    THEN LET s == r.ps[1][1]
         IN IF s = <<>> THEN Light(v) ELSE [kind |-> "ok", full |-> TRUE, ps |-> <<<<s, 0>>, <<v, Len(s)>>>>]
    ELSE [r EXCEPT !.ps = Append(@, <<v, EndOfPs(r.ps)>>)]

AppendR(r, o) ==
  CASE ~r.full /\ ~o.full ->
         LET s == r.ps[1][1]
             t == o.ps[1][1]
         IN IF t = <<>> THEN r ELSE IF s = <<>> THEN Light(t)
            ELSE [kind |-> "ok", full |-> TRUE, ps |-> <<<<s, 0>>, <<t, Len(s)>>>>]
    [] r.full /\ o.full -> [r EXCEPT !.ps = @ \o Renumber(o.ps, EndOfPs(r.ps))]
    [] r.full /\ ~o.full ->
         LET t == o.ps[1][1]
         IN IF t = <<>> THEN r ELSE [r EXCEPT !.ps = Append(@, <<t, EndOfPs(r.ps)>>)]
    [] OTHER ->  \* one-string self, many-piece argument
         LET s == r.ps[1][1]
         IN IF s = <<>> THEN o      \* adopted as it is, offsets included
            ELSE [kind |-> "ok", full |-> TRUE, ps |-> <<<<s, 0>>>> \o Renumber(o.ps, Len(s))]

FromIterR(texts) == FromPieces(Number(SelectSeq(texts, LAMBDA t : t # <<>>), 0))

(* str::get(a..b): in range and on character boundaries                      *)
StrGet(t, a, b) == IF SliceOK(t, a, b) THEN <<SubSeq(t, a + 1, b)>> ELSE <<>>

SliceR(r, a, b) ==
  IF a > b \/ b > LenR(r) THEN InvalidR
  ELSE IF ~r.full
    THEN LET g == StrGet(r.ps[1][1], a, b) IN IF g = <<>> THEN InvalidR ELSE Light(g[1])
    ELSE
      LET ps == r.ps
          n == Len(ps)
          exact == {i \in 1..n : ps[i][2] = a}
          before == Cardinality({i \in 1..n : ps[i][2] < a})
          si == IF exact # {} THEN Min(exact) ELSE (IF before = 0 THEN 1 ELSE before)   \* 1-based
          endEq == {i \in 1..n : ps[i][2] + Len(ps[i][1]) = b}
          endBefore == Cardinality({i \in 1..n : ps[i][2] + Len(ps[i][1]) < b})
          ei == IF endEq # {} THEN Min(endEq) ELSE endBefore + 1
      IN IF si = ei
           THEN LET c == ps[si]
                    g == IF a >= c[2] /\ b >= c[2] THEN StrGet(c[1], a - c[2], b - c[2]) ELSE <<>>
                IN IF g = <<>> THEN InvalidR ELSE Light(g[1])
         ELSE IF ei < si THEN Light(<<>>)
         ELSE IF ei > n THEN InvalidR
         ELSE
           LET first == ps[si]
               last == ps[ei]
               fOK == a >= first[2] /\ (a - first[2]) \in Boundaries(first[1]) /\ a - first[2] <= Len(first[1])
               lOK == b >= last[2] /\ (b - last[2]) \in Boundaries(last[1]) /\ b - last[2] <= Len(last[1])
               texts == [k \in si..ei |->
                           IF k = si THEN SubSeq(first[1], a - first[2] + 1, Len(first[1]))
                           ELSE IF k = ei THEN SubSeq(last[1], 1, b - last[2])
                           ELSE ps[k][1]]
               seq == [k \in 1..(ei - si + 1) |-> texts[si + k - 1]]
           IN IF ~fOK \/ ~lOK THEN InvalidR ELSE FromPieces(Number(SelectSeq(seq, LAMBDA t : TRUE), 0))

(* lines() (the public one: a trailing line break, and the empty rope, are   *)
(* followed by one empty line).  The many-piece iterator keeps the piece it  *)
(* is in and the offset inside it; a line inside one piece is a one-string   *)
(* rope, a line across pieces a many-piece rope renumbered from 0.           *)
NLPos(t, from) ==       \* 0-based index just behind the first NL at or after `from`, or -1
  LET c == {i \in (from + 1)..Len(t) : t[i] = NL} IN IF c = {} THEN -1 ELSE Min(c)
RECURSIVE FindEnd(_, _, _)
FindEnd(ps, ci, ii) ==  \* <<piece, offset behind the NL>> or <<0, 0>>
  IF ci > Len(ps) THEN <<0, 0>>
  ELSE LET e == NLPos(ps[ci][1], ii) IN IF e >= 0 THEN <<ci, e>> ELSE FindEnd(ps, ci + 1, 0)
RECURSIVE LinesFull(_, _, _, _, _)
LinesFull(ps, ci, ii, bi, total) ==
  IF bi = total THEN <<Light(<<>>)>>           \* (reached only behind a trailing line break)
  ELSE IF ii = Len(ps[ci][1]) /\ ci < Len(ps) THEN LinesFull(ps, ci + 1, 0, bi, total)
  ELSE
    LET end == FindEnd(ps, ci, ii)
        n == Len(ps)
    IN IF end[1] > 0 THEN
         IF end[1] = ci
           THEN <<Light(SubSeq(ps[ci][1], ii + 1, end[2]))>>
                  \o (IF bi + end[2] - ii = total THEN <<Light(<<>>)>>
                      ELSE LinesFull(ps, ci, end[2], bi + end[2] - ii, total))
           ELSE LET texts == [k \in 1..(end[1] - ci + 1) |->
                                IF k = 1 THEN SubSeq(ps[ci][1], ii + 1, Len(ps[ci][1]))
                                ELSE IF ci + k - 1 = end[1] THEN SubSeq(ps[end[1]][1], 1, end[2])
                                ELSE ps[ci + k - 1][1]]
                    len == Len(Concat(texts))
                IN <<FromPieces(Number(texts, 0))>>
                     \o (IF bi + len = total THEN <<Light(<<>>)>>
                         ELSE LinesFull(ps, end[1], end[2], bi + len, total))
       ELSE \* no further line break: the rest of the rope
         IF n - ci + 1 = 1 THEN <<Light(SubSeq(ps[ci][1], ii + 1, Len(ps[ci][1])))>>
         ELSE <<FromPieces(Number([k \in 1..(n - ci + 1) |->
                                     IF k = 1 THEN SubSeq(ps[ci][1], ii + 1, Len(ps[ci][1]))
                                     ELSE ps[ci + k - 1][1]], 0))>>
LinesR(r) ==
  IF ~r.full
    THEN LET ls == RopeLines(r.ps[1][1]) IN [k \in 1..Len(ls) |-> Light(ls[k])]
    ELSE LinesFull(r.ps, 1, 0, 0, EndOfPs(r.ps))

RECURSIVE ReprOf(_, _)
ReprOf(e, pieces) ==
  CASE e[1] = "new" -> Light(<<>>)
    [] e[1] = "from" -> Light(pieces[e[2] + 1])
    [] e[1] = "from_iter" -> FromIterR([i \in 1..Len(e[2]) |-> pieces[e[2][i] + 1]])
    [] e[1] = "add" ->
         LET x == ReprOf(e[2], pieces)
         IN IF x.kind # "ok" THEN x ELSE AddR(x, pieces[e[3] + 1])
    [] e[1] = "append" ->
         LET x == ReprOf(e[2], pieces)
             y == ReprOf(e[3], pieces)
         IN IF x.kind = "unmodelled" \/ y.kind = "unmodelled" THEN Unmodelled
            ELSE IF x.kind = "invalid" \/ y.kind = "invalid" THEN InvalidR ELSE AppendR(x, y)
    [] e[1] = "slice" ->
         LET x == ReprOf(e[2], pieces)
         IN IF x.kind # "ok" THEN x ELSE SliceR(x, e[3], e[4])
    [] e[1] = "line" ->
         LET x == ReprOf(e[2], pieces)
         IN IF x.kind # "ok" THEN x
            ELSE LET ls == LinesR(x) IN IF e[3] + 1 <= Len(ls) THEN ls[e[3] + 1] ELSE InvalidR
    [] OTHER -> Unmodelled

(* what the unchecked indexing and the binary searches rely on               *)
ReprWellFormed(r) ==
  IF ~r.full THEN Len(r.ps) = 1 /\ r.ps[1][2] = 0
  ELSE /\ Len(r.ps) >= 1
       /\ \A i \in 1..Len(r.ps) : r.ps[i][1] # <<>>
       /\ r.ps = Renumber(r.ps, 0)
=============================================================================
