CONSTANT MaxLen = 7
SPECIFICATION Spec
INVARIANT DesignOK
CHECK_DEADLOCK FALSE
