-------------------------------- MODULE SMap --------------------------------
(***************************************************************************)
(* Source maps as values and the meaning of "resolving a position".        *)
(* A map is [m, sources, contents, names, root, file, dbg]: m is the        *)
(* mappings string (characters as integers), sources / contents / names are *)
(* sequences of byte strings, root / file / dbg are 0- or 1-element         *)
(* sequences (absent / present).                                            *)
(*                                                                         *)
(* An attribution is what a position is attributed to, by value (strings,   *)
(* never table indices):                                                    *)
(*   [m, f, hc, ct, l, c, hn, n]                                            *)
(* m = mapped?, f = file name, hc/ct = has content / content, l/c =         *)
(* original line / column, hn/n = has name / name.                          *)
(***************************************************************************)
EXTENDS Naturals, Integers, Sequences, FiniteSets, SequencesExt,
        FiniteSetsExt, Text, Vlq

Unmapped == [m |-> FALSE, f |-> <<>>, hc |-> FALSE, ct |-> <<>>, l |-> 0,
             c |-> 0, hn |-> FALSE, n |-> <<>>]

(* a name that no real table contains; used for dangling indices            *)
BadIndex == <<0, 63, 63, 0>>

SLASH == 47

ApplyRoot(root, name) ==
  IF root = <<>> THEN name
  ELSE LET r == root[1]
       IN IF r = <<>> THEN name
          ELSE IF r[Len(r)] = SLASH THEN r \o name
          ELSE r \o <<SLASH>> \o name

(* tables of a map, with the root applied to the file names                 *)
FileOf(map, si) ==
  IF si >= 0 /\ si < Len(map.sources)
    THEN ApplyRoot(map.root, map.sources[si + 1]) ELSE BadIndex
(* sourcesContent cannot express "absent" for one entry among present ones   *)
(* (absent entries read back as ""), so an empty content counts as none      *)
HasContent(map, si) ==
  si >= 0 /\ si < Len(map.contents) /\ map.contents[si + 1] # <<>>
ContentOf(map, si) == IF HasContent(map, si) THEN map.contents[si + 1] ELSE <<>>
NameOf(map, ni) ==
  IF ni >= 0 /\ ni < Len(map.names) THEN map.names[ni + 1] ELSE BadIndex

(* attribution carried by decoded segment s of map                          *)
SegAttr(map, s) ==
  IF s.si < 0 THEN Unmapped
  ELSE [m |-> TRUE, f |-> FileOf(map, s.si), hc |-> HasContent(map, s.si),
        ct |-> ContentOf(map, s.si), l |-> s.ol, c |-> s.oc,
        hn |-> s.ni >= 0, n |-> IF s.ni >= 0 THEN NameOf(map, s.ni) ELSE <<>>]

(* index of the segment that covers <<line, col>>: the last one on that     *)
(* line whose column is at or before col; 0 if none                         *)
CoverIdx(segs, line, col) ==
  LET c == {i \in 1..Len(segs) : segs[i].gl = line /\ segs[i].gc <= col}
  IN IF c = {} THEN 0
     ELSE LET best == Max({segs[i].gc : i \in c})
          IN Max({i \in c : segs[i].gc = best})

(* index of the first mapped segment on a line; 0 if none                   *)
FirstMappedIdx(segs, line) ==
  LET c == {i \in 1..Len(segs) : segs[i].gl = line /\ segs[i].si >= 0}
  IN IF c = {} THEN 0 ELSE Min(c)

ResolveCol(map, segs, line, col) ==
  LET i == CoverIdx(segs, line, col)
  IN IF i = 0 THEN Unmapped ELSE SegAttr(map, segs[i])

ResolveLine(map, segs, line) ==
  LET i == FirstMappedIdx(segs, line)
  IN IF i = 0 THEN Unmapped ELSE SegAttr(map, segs[i])

(* the (file, line) part only: what columns=false preserves                 *)
LineOnly(a) == IF a.m THEN <<TRUE, a.f, a.l>> ELSE <<FALSE, <<>>, 0>>

HasMapped(segs) == \E i \in 1..Len(segs) : segs[i].si >= 0
=============================================================================
