------------------------------- MODULE MC_RopeM ------------------------------
EXTENDS RopeM, TLC
cA == 97
cB == 98
Pieces == <<<<>>, <<cA>>, <<NL>>, <<cA, NL>>, <<195, 169>>, <<cA, cB>>, <<cB, NL, 99>>>>
RNew == <<"new">>
RFrom(p) == <<"from", p>>
RIter(ps) == <<"from_iter", ps>>
RAdd(e, p) == <<"add", e, p>>
RApp(e, f) == <<"append", e, f>>
RSlice(e, a, b) == <<"slice", e, a, b>>
E0 == {RNew} \cup {RFrom(p) : p \in 0..6} \cup {RIter(ps) : ps \in UNION {[1..k -> {0, 1, 3, 4, 5}] : k \in 0..2}}
E0Slim == {RNew, RFrom(1), RFrom(4), RIter(<<>>), RIter(<<1, 3>>), RIter(<<0, 5>>), RIter(<<4, 5, 6>>), RIter(<<3>>),
           RAdd(RNew, 0), RAdd(RNew, 1)}
E1 == E0 \cup {RAdd(e, p) : e \in E0Slim, p \in {0, 1, 4}} \cup {RApp(e, f) : e \in E0Slim, f \in E0Slim}
E1Slim == E0Slim \cup {RApp(RIter(<<1, 3>>), RFrom(4)), RApp(RAdd(RNew, 2), RIter(<<5, 0, 1>>)),
                       RApp(RNew, RIter(<<4, 5, 6>>)), RAdd(RApp(RFrom(5), RIter(<<3, 4>>)), 1)}
MaxLenE == 8
Slices(S) == UNION {{RSlice(e, q[1], q[2]) : q \in {w \in (0..MaxLenE) \X (0..MaxLenE) : w[1] <= w[2]}} : e \in S}
E2 == E1 \cup Slices(E1Slim)
\* slices of slices, and slices adopted by an empty rope and sliced again
E3 == {RSlice(RApp(RNew, RSlice(e, a, b)), c, d) :
         e \in {RIter(<<4, 5, 6>>), RApp(RFrom(5), RIter(<<3, 4>>))}, a \in 0..3, b \in 4..7, c \in 0..2, d \in 2..5}

RLine(x, k) == <<"line", x, k>>
E4 == {RLine(x, k) : x \in E1 \cup E1Slim, k \in 0..3}
      \cup {RLine(RIter(ps), k) : ps \in [1..3 -> {1, 2, 3, 6}], k \in 0..3}
      \cup {RApp(RLine(RIter(<<3, 4, 2>>), k), RAdd(RNew, 1)) : k \in 0..2}

VARIABLE e
Init == e \in E2 \cup E3 \cup E4
Next == UNCHANGED e
Spec == Init /\ [][Next]_e
DesignOK ==
  LET r == ReprOf(e, Pieces)
      flat == FlatOf(e, Pieces)
  IN /\ r.kind # "unmodelled"
     /\ (r.kind = "invalid") = (flat = Invalid)
     /\ r.kind = "ok" => (TextOfR(r) = flat /\ ReprWellFormed(r))
=============================================================================
