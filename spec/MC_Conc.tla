------------------------------ MODULE MC_Conc -------------------------------
(* Model-checking instances of Conc.tla                                     *)
EXTENDS Conc

Menu ==
  {[k |-> "map", key |-> 0], [k |-> "map", key |-> 1],
   [k |-> "stream", key |-> 0], [k |-> "stream", key |-> 1],
   [k |-> "pstream", key |-> 0],
   [k |-> "rsource", key |-> 0], [k |-> "rclone", key |-> 0]}

(* after a clone the thread reads through its own clone                     *)
OpLists(n) ==
  UNION {[1..m -> Menu] : m \in 1..n}
  \cup {<<[k |-> "rclone", key |-> 0], [k |-> "csource", key |-> 0]>>}

T2 == {0, 1}
T3 == {0, 1, 2}
Programs2x2 == [T2 -> OpLists(2)]
Programs3x1 == [T3 -> OpLists(1) \cup {<<[k |-> "rclone", key |-> 0], [k |-> "csource", key |-> 0]>>}]
(* programs whose every interleaving is emitted as a schedule: one or two   *)
(* ops per thread, chosen so that each racing pair of code paths occurs     *)
M(k) == [k |-> "map", key |-> k]
S(k) == [k |-> "stream", key |-> k]
P(k) == [k |-> "pstream", key |-> k]
RS == [k |-> "rsource", key |-> 0]
RC == [k |-> "rclone", key |-> 0]
CS == [k |-> "csource", key |-> 0]
GenLists ==
  {<<M(0)>>, <<S(0)>>, <<P(0)>>, <<M(1)>>, <<S(1)>>, <<RS>>, <<RC, CS>>}
GenPrograms2 == [T2 -> GenLists]
GenPrograms3 == [T3 -> {<<M(0)>>, <<S(0)>>, <<P(0)>>, <<RS>>, <<RC, CS>>}]

SameShard == [k \in {0, 1} |-> 0]
OwnShards == [k \in {0, 1} |-> k]
=============================================================================
