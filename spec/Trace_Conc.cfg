CONSTANTS
  Threads <- TraceThreads
  Programs <- TracePrograms
  ShardOf <- TraceShardOf
  InsertOverwrites = FALSE
  MapSkipsHeldShard = FALSE
SPECIFICATION TraceSpec
INVARIANT TraceDone
CHECK_DEADLOCK FALSE
