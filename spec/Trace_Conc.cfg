CONSTANTS
  Threads <- TraceThreads
  Programs <- TracePrograms
  ShardOf <- TraceShardOf
  InsertOverwrites = FALSE
SPECIFICATION TraceSpec
INVARIANT TraceDone
CHECK_DEADLOCK FALSE
