CONSTANTS
  Threads <- T3
  Programs <- GenPrograms3
  ShardOf <- SameShard
  InsertOverwrites = FALSE
SPECIFICATION Spec
INVARIANT EmitSchedule
CHECK_DEADLOCK FALSE
