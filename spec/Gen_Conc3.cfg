CONSTANTS
  Threads <- T3
  Programs <- GenPrograms3
  ShardOf <- SameShard
  InsertOverwrites = FALSE
  MapSkipsHeldShard = FALSE
SPECIFICATION Spec
INVARIANT EmitSchedule
CHECK_DEADLOCK FALSE
