------------------------------- MODULE MC_EncM ------------------------------
(* every sorted sequence of <= 3 segments over a small domain               *)
EXTENDS EncM, TLC

Origs == {<<-1, 0, 0, -1>>} \cup
         {<<si, ol, oc, ni>> : si \in {0, 1}, ol \in {1, 2}, oc \in {0, 2}, ni \in {-1, 0, 1}}
SegDom == {[gl |-> gl, gc |-> gc, si |-> o[1], ol |-> o[2], oc |-> o[3], ni |-> o[4]] :
             gl \in {1, 2, 3}, gc \in {0, 1, 3}, o \in Origs}
SlimOrigs == {<<-1, 0, 0, -1>>, <<0, 1, 0, -1>>, <<0, 1, 0, 0>>, <<1, 2, 1, -1>>, <<0, 1, 0, 1>>}
SlimDom == {[gl |-> gl, gc |-> gc, si |-> o[1], ol |-> o[2], oc |-> o[3], ni |-> o[4]] :
              gl \in {1, 2}, gc \in {0, 1}, o \in SlimOrigs}

Inputs ==
  {<<>>} \cup {<<a>> : a \in SegDom}
  \cup {<<p[1], p[2]>> : p \in {q \in SegDom \X SegDom : SegLe(q[1], q[2])}}
  \cup {<<p[1], p[2], p[3]>> :
          p \in {q \in SlimDom \X SlimDom \X SlimDom : SegLe(q[1], q[2]) /\ SegLe(q[2], q[3])}}

VARIABLE segs
Init == segs \in Inputs
Next == UNCHANGED segs
Spec == Init /\ [][Next]_segs
EncoderDesignOK == FullOK(segs) /\ LinesOK(segs)
=============================================================================
