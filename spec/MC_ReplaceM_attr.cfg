CONSTANT Deep = FALSE
CONSTANT AttrScope = "slim"
SPECIFICATION Spec
INVARIANT DesignOK
CHECK_DEADLOCK FALSE
