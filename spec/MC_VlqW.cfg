CONSTANT Narrow = FALSE
SPECIFICATION Spec
INVARIANT RoundTrip
CHECK_DEADLOCK FALSE
