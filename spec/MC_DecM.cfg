CONSTANT MaxLen = 5
SPECIFICATION Spec
INVARIANT DesignOK
CHECK_DEADLOCK FALSE
