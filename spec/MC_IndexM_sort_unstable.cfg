SPECIFICATION Spec
CONSTANTS
  Keys = {1, 2, 3}
  Objs = {o1, o2}
  MaxCalls = 4
  Variant = "sort_unstable"
INVARIANTS TypeOK FlagMeansCurrent ObserversSeeStableOrder EqualCallsEqualAnswers
CHECK_DEADLOCK FALSE
