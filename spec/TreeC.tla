-------------------------------- MODULE TreeC --------------------------------
(***************************************************************************)
(* TreeM with CachedSource: streams and maps of whole trees depend on what   *)
(* the caches beneath hold.  cs : <<cache id, columns, final>> -> <<>>        *)
(* (the map None is stored) or <<map>>; a key that is absent is cold.        *)
(*   stream, cold  the wrapped source is streamed (pass-through) and what    *)
(*                 the encoder makes of the chunks is stored                 *)
(*                 (stream_and_get_source_and_map)                          *)
(*   stream, warm  the text is split along the stored map, as a               *)
(*                 SourceMapSource would (or line by line without a map)     *)
(*   map, cold     the wrapped source's map() is stored under (columns,      *)
(*                 FALSE) - the key normal-mode streams use as well          *)
(* Every map()/stream call threads cs through the tree in the order the     *)
(* code visits it.  Since the stored map is an encoding of chunks, the       *)
(* replay is coarser than the first pass: with a ReplaceSource above, the    *)
(* model itself answers differently cold and warm - the known findings K1 /  *)
(* K1b / K1c are behaviours of this model, not deviations from it.           *)
(* Maps are built by value: table indices in order of first use.             *)
(***************************************************************************)
EXTENDS TreeM

CKey(t, columns, final) == <<t.cid, columns, final>>

(* the map an encoder makes of by-value chunks (get_map /                    *)
(* stream_and_get_source_and_map): <<>> if no mapping was written            *)
MapOfChunks(chunks, columns) ==
  LET mapped == SelectSeq(chunks, LAMBDA c : c.a.m)
      fileOf(c) == <<c.a.f, c.a.hc, c.a.ct>>
      files == FoldLeft(LAMBDA acc, c : IF \E i \in 1..Len(acc) : acc[i] = fileOf(c) THEN acc
                                        ELSE Append(acc, fileOf(c)), <<>>, mapped)
      names == FoldLeft(LAMBDA acc, c : IF ~c.a.hn \/ (\E i \in 1..Len(acc) : acc[i] = c.a.n) THEN acc
                                        ELSE Append(acc, c.a.n), <<>>, mapped)
      idx(seq, x) == Min({i \in 1..Len(seq) : seq[i] = x}) - 1
      segs == [k \in 1..Len(chunks) |->
                 LET c == chunks[k]
                 IN IF ~c.a.m THEN [gl |-> c.gl, gc |-> c.gc, si |-> -1, ol |-> 0, oc |-> 0, ni |-> -1]
                    ELSE [gl |-> c.gl, gc |-> c.gc, si |-> idx(files, fileOf(c)), ol |-> c.a.l, oc |-> c.a.c,
                          ni |-> IF c.a.hn THEN idx(names, c.a.n) ELSE -1]]
      m == IF columns THEN EncodeFullM(segs) ELSE EncodeLinesM(segs)
  IN IF m = <<>> THEN <<>>
     ELSE <<[m |-> m, sources |-> [i \in 1..Len(files) |-> files[i][1]],
             contents |-> [i \in 1..Len(files) |-> files[i][3]],
             names |-> names, root |-> <<>>, file |-> <<>>, dbg |-> <<>>]>>

(* a CachedSource answering a stream from what it stored                     *)
Replay(text, stored, columns, final) ==
  IF stored = <<>>
    THEN LET s == RawStream(text, final)
         IN [kind |-> "ok", chunks |-> [i \in 1..Len(s.ev) |-> OfLeafEv(s.ev[i], Unmapped)], end |-> s.end]
    ELSE LET synth == [k |-> "sms", b |-> text, name |-> <<>>, map |-> stored[1], inner |-> <<>>,
                       osrc |-> <<>>, remove |-> FALSE]
         IN [kind |-> "ok", chunks |-> StreamChunks(SmsEvents(synth, columns, final)),
             end |-> IF text = <<>> THEN <<1, 0>> ELSE EndPos(text)]

Bad == [kind |-> "unmodelled", chunks |-> <<>>, end |-> <<1, 0>>]

RECURSIVE StreamC(_, _, _, _)
StreamC(t, columns, final, cs) ==
  CASE t.k \in {"raw", "orig", "sms"} -> [s |-> StreamV(t, columns, final), cs |-> cs]
    [] t.k = "cached" ->
         LET key == CKey(t, columns, final)
         IN IF key \in DOMAIN cs
              THEN [s |-> Replay(TextOf(t), cs[key], columns, final), cs |-> cs]
              ELSE LET r == StreamC(t.inner, columns, final, cs)
                   IN IF r.s.kind # "ok" THEN r
                      ELSE [s |-> r.s, cs |-> PutF(r.cs, key, MapOfChunks(r.s.chunks, columns))]
    [] t.k = "concat" ->
         LET ch == HChildren(t)
             step(acc, c) ==
               LET r == StreamC(c, columns, final, acc.cs)
               IN [ss |-> Append(acc.ss, r.s), cs |-> r.cs]
             all == FoldLeft(step, [ss |-> <<>>, cs |-> cs], ch)
         IN IF \E i \in 1..Len(ch) : all.ss[i].kind # "ok" THEN [s |-> Bad, cs |-> all.cs]
            ELSE IF Len(ch) = 1 THEN [s |-> all.ss[1], cs |-> all.cs]
            ELSE [s |-> ConcatV(all.ss, final), cs |-> all.cs]
    [] t.k = "replace" ->
         LET r == StreamC(t.inner, columns, FALSE, cs)
         IN IF r.s.kind # "ok" THEN r
            ELSE LET o == ReplaceStream(r.s.chunks, r.s.end, Sorted(t.repls))
                 IN [s |-> [kind |-> "ok", chunks |-> o.chunks, end |-> o.end], cs |-> r.cs]
    [] t.k = "box" -> StreamC(t.inner, columns, final, cs)
    [] OTHER -> [s |-> Bad, cs |-> cs]

(* map(): <<>> or <<map>>, and the caches afterwards                         *)
RECURSIVE MapC(_, _, _)
MapC(t, columns, cs) ==
  CASE t.k = "raw" -> [m |-> <<>>, cs |-> cs, ok |-> TRUE]
    [] t.k = "sms" /\ t.inner = <<>> -> [m |-> <<t.map>>, cs |-> cs, ok |-> TRUE]
    [] t.k = "replace" /\ t.repls = <<>> -> MapC(t.inner, columns, cs)
    [] t.k = "box" -> MapC(t.inner, columns, cs)
    [] t.k = "cached" ->
         LET key == CKey(t, columns, FALSE)
         IN IF key \in DOMAIN cs THEN [m |-> cs[key], cs |-> cs, ok |-> TRUE]
            ELSE LET r == MapC(t.inner, columns, cs)
                 IN [r EXCEPT !.cs = IF r.ok THEN PutF(r.cs, key, r.m) ELSE r.cs]
    [] OTHER ->   \* get_map over the final-source stream
         LET r == StreamC(t, columns, TRUE, cs)
         IN [m |-> IF r.s.kind = "ok" THEN MapOfChunks(r.s.chunks, columns) ELSE <<>>,
             cs |-> r.cs, ok |-> r.s.kind = "ok"]

RECURSIVE TreeCDomain(_)
TreeCDomain(t) ==
  CASE t.k \in {"raw", "orig"} -> IsAscii(t.b)
    [] t.k = "sms" -> IF t.inner = <<>> THEN AsciiConsistent(t) /\ SmallSegs(t.map)
                      ELSE C09DomainM(t) /\ SmallSegs(t.map) /\ SmallSegs(t.inner[1])
    [] t.k = "concat" -> LET ch == Children(t) IN \A i \in 1..Len(ch) : TreeCDomain(ch[i])
    [] t.k \in {"box", "cached"} -> TreeCDomain(t.inner)
    [] t.k = "replace" -> TreeCDomain(t.inner) /\ \A i \in 1..Len(t.repls) : IsAscii(t.repls[i].c) /\ t.repls[i].s <= t.repls[i].e
    [] OTHER -> FALSE

(* every CachedSource node gets an identity of its own when a tree is built  *)
(* (the harness builds a new object per node; clones and register            *)
(* references share)                                                         *)
RECURSIVE Uniq(_, _)
Uniq(t, tag) ==
  CASE t.k = "cached" -> [t EXCEPT !.cid = tag, !.inner = Uniq(t.inner, Append(tag, 0))]
    [] t.k \in {"replace", "box"} -> [t EXCEPT !.inner = Uniq(t.inner, Append(tag, 0))]
    [] t.k = "concat" ->
         LET c == [t EXCEPT !.ch = [i \in 1..Len(t.ch) |-> Uniq(t.ch[i], Append(tag, i))]]
         IN IF "adds" \in DOMAIN t
              THEN [c EXCEPT !.adds = [i \in 1..Len(t.adds) |-> Uniq(t.adds[i], Append(tag, 100 + i))]]
              ELSE c
    [] OTHER -> t
=============================================================================
