-------------------------------- MODULE LeafM --------------------------------
(***************************************************************************)
(* Implementation-shaped model of the leaf streams: the byte scanner        *)
(* PotentialTokens (src/helpers.rs), OriginalSource::stream_chunks in its   *)
(* four modes (columns x final-source, src/original_source.rs),             *)
(* stream_chunks_of_raw_source and get_generated_source_info.  A stream is  *)
(* [ev, end]: ev a sequence of chunk events [x, gl, gc, o] with x = <<>>    *)
(* or <<text>> and o = <<>> or <<source index, line, column, name index>>,  *)
(* the form the harness records.  Positions count bytes, as the code does.  *)
(* MC_LeafM checks the design against Text.tla / Sem.tla: the chunks        *)
(* reassemble the text, every chunk is reported where its first byte really *)
(* is, the end is the end of the text, a chunk is mapped (to itself) unless *)
(* it is a lone line break, chunks begin exactly at the statement starts of *)
(* the documented splitting rule, and the text-less final-source streams    *)
(* are the normal ones without their unmapped events.                       *)
(***************************************************************************)
EXTENDS Naturals, Integers, Sequences, FiniteSets, SequencesExt, Text

IsSep(b) == b \in {59, 123, 125}                       \* ; { }
IsTail(b) == b \in {59, 123, 125, 32, 13, 9}           \* ; { } space \r \t

(* PotentialTokens::next from byte index `start` (1-based, start <= Len):   *)
(* index of the last byte of the token                                      *)
RECURSIVE SkipBodyM(_, _)
SkipBodyM(t, i) ==          \* while c != '\n' && c != ';' && c != '{' && c != '}'
  IF i > Len(t) THEN i
  ELSE IF t[i] = NL \/ IsSep(t[i]) THEN i ELSE SkipBodyM(t, i + 1)
RECURSIVE SkipTailM(_, _)
SkipTailM(t, i) ==          \* while c is one of ; space { } \r \t
  IF i > Len(t) THEN i
  ELSE IF IsTail(t[i]) THEN SkipTailM(t, i + 1) ELSE i
TokEndM(t, start) ==
  LET i == SkipBodyM(t, start)
  IN IF i > Len(t) THEN Len(t)
     ELSE LET j == SkipTailM(t, i)
          IN IF j > Len(t) THEN Len(t)
             ELSE IF t[j] = NL THEN j ELSE j - 1

RECURSIVE TokensFrom(_, _)
TokensFrom(t, start) ==
  IF start > Len(t) THEN <<>>
  ELSE LET e == TokEndM(t, start)
       IN <<SubSeq(t, start, e)>> \o TokensFrom(t, e + 1)
Tokens(t) == TokensFrom(t, 1)

EndsWithNL(x) == x # <<>> /\ x[Len(x)] = NL

(* get_generated_source_info                                                *)
SourceInfo(t) ==
  LET ls == Lines(t)
  IN IF EndsWithNL(t) THEN <<Len(ls) + 1, 0>>
     ELSE IF ls = <<>> THEN <<1, 0>> ELSE <<Len(ls), Len(ls[Len(ls)])>>

Self(line, col) == <<0, line, col, -1>>
Ev(x, gl, gc, o) == [x |-> x, gl |-> gl, gc |-> gc, o |-> o]

(* columns = TRUE: one step per token; line / column carried along           *)
OrigColumns(t, final) ==
  LET step(acc, tok) ==
        LET line == acc[2]
            col == acc[3]
            lone == tok = <<NL>>
            ev == IF lone
                    THEN (IF final THEN <<>> ELSE <<Ev(<<tok>>, line, col, <<>>)>>)
                    ELSE <<Ev(IF final THEN <<>> ELSE <<tok>>, line, col, Self(line, col))>>
        IN <<acc[1] \o ev,
             IF EndsWithNL(tok) THEN line + 1 ELSE line,
             IF EndsWithNL(tok) THEN 0 ELSE col + Len(tok)>>
      r == FoldLeft(step, <<<<>>, 1, 0>>, Tokens(t))
  IN [ev |-> r[1], end |-> <<r[2], r[3]>>]

(* columns = FALSE                                                          *)
OrigLines(t, final) ==
  IF final
    THEN LET info == SourceInfo(t)
             n == IF info[2] = 0 THEN info[1] - 1 ELSE info[1]
         IN [ev |-> [l \in 1..n |-> Ev(<<>>, l, 0, Self(l, 0))], end |-> info]
    ELSE LET ls == Lines(t)
             n == Len(ls)
         IN [ev |-> [l \in 1..n |-> Ev(<<ls[l]>>, l, 0, Self(l, 0))],
             end |-> IF n > 0 /\ ~EndsWithNL(ls[n]) THEN <<n, Len(ls[n])>> ELSE <<n + 1, 0>>]

OrigStream(t, columns, final) ==
  IF columns THEN OrigColumns(t, final) ELSE OrigLines(t, final)

(* stream_chunks_of_raw_source (both column settings)                       *)
RawStream(t, final) ==
  IF final THEN [ev |-> <<>>, end |-> SourceInfo(t)]
  ELSE LET ls == Lines(t)
           n == Len(ls)
       IN [ev |-> [l \in 1..n |-> Ev(<<ls[l]>>, l, 0, <<>>)],
           end |-> IF n > 0 /\ ~EndsWithNL(ls[n]) THEN <<n, Len(ls[n])>> ELSE <<n + 1, 0>>]
=============================================================================
