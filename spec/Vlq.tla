-------------------------------- MODULE Vlq ---------------------------------
(***************************************************************************)
(* The source-map v3 "mappings" format, specified independently of the      *)
(* library: base64 alphabet, VLQ digits with the sign in bit 0, segments of *)
(* 1, 4 or 5 relative fields separated by ',', lines separated by ';'.      *)
(* TLC integers are 32-bit and overflow is an error, so VLQ values are      *)
(* handled as (sign, magnitude) and never shifted left.                     *)
(*                                                                         *)
(* A decoded segment is [gl, gc, si, ol, oc, ni]: generated line (1-based), *)
(* generated column, source index (-1 = unmapped 1-field segment), original *)
(* line (1-based, i.e. v3 value + 1), original column, name index (-1 =     *)
(* none).                                                                   *)
(***************************************************************************)
EXTENDS Naturals, Integers, Sequences, FiniteSets, SequencesExt, FiniteSetsExt

COMMA == 44
SEMI == 59

B64Val(c) ==
  CASE c >= 65 /\ c <= 90 -> c - 65
    [] c >= 97 /\ c <= 122 -> c - 97 + 26
    [] c >= 48 /\ c <= 57 -> c - 48 + 52
    [] c = 43 -> 62
    [] c = 47 -> 63
    [] OTHER -> -1

B64Char(v) ==
  CASE v <= 25 -> 65 + v
    [] v <= 51 -> 97 + (v - 26)
    [] v <= 61 -> 48 + (v - 52)
    [] v = 62 -> 43
    [] OTHER -> 47

IsMappingsChar(c) == B64Val(c) >= 0 \/ c = COMMA \/ c = SEMI

Abs(x) == IF x < 0 THEN -x ELSE x

-----------------------------------------------------------------------------
(* Encoding one value.  The canonical spelling has no redundant digits and  *)
(* never spells "negative zero".                                            *)
RECURSIVE RestDigits(_)
RestDigits(rest) ==
  IF rest = 0 THEN <<>>
  ELSE LET d == rest % 32
           r == rest \div 32
       IN <<B64Char(d + IF r > 0 THEN 32 ELSE 0)>> \o RestDigits(r)

Digits(delta) ==
  LET mag == Abs(delta)
      d0 == (mag % 16) * 2 + (IF delta < 0 THEN 1 ELSE 0)
      rest == mag \div 16
  IN <<B64Char(d0 + IF rest > 0 THEN 32 ELSE 0)>> \o RestDigits(rest)

-----------------------------------------------------------------------------
(* Decoding.  Weights of the data bits of digit k >= 1 (digit 0 carries the *)
(* sign and 4 bits).  Beyond digit 6 a non-zero digit leaves the 2^31       *)
(* range: the value is then reported as out of range (ovf).                 *)
Weight == <<16, 512, 16384, 524288, 16777216, 536870912>>

(* state of the segment decoder while folding over the characters           *)
DecInit ==
  [line |-> 1, gc |-> 0, si |-> 0, ol |-> 1, oc |-> 0, ni |-> 0,
   fields |-> <<>>,      \* values of the current segment so far
   k |-> -1,             \* index of the next digit of the value in progress, -1 = none
   mag |-> 0, neg |-> FALSE, ovf |-> FALSE,
   segs |-> <<>>, wf |-> TRUE]

(* additions that cannot leave TLC's integer range: a sum outside           *)
(* [-MaxI, MaxI] is reported as out of range (value 0, wf FALSE)            *)
MaxI == 2147483647
AddOK(a, b) ==
  IF b >= 0 THEN a <= MaxI - b ELSE a >= (0 - MaxI) - b
Add(a, b) == IF AddOK(a, b) THEN a + b ELSE 0

EndSegment(st) ==
  LET f == st.fields
      n == Len(f)
      pending == st.k >= 0
      base == [st EXCEPT !.fields = <<>>, !.k = -1, !.mag = 0,
                         !.neg = FALSE]
  IN IF pending THEN [base EXCEPT !.wf = FALSE]
     ELSE IF n = 0 THEN base
     ELSE IF n = 1 THEN
       LET gc == Add(st.gc, f[1])
       IN [base EXCEPT !.gc = gc,
             !.segs = Append(st.segs, [gl |-> st.line, gc |-> gc, si |-> -1,
                                       ol |-> 0, oc |-> 0, ni |-> -1]),
             !.wf = st.wf /\ gc >= 0 /\ AddOK(st.gc, f[1])]
     ELSE IF n = 4 \/ n = 5 THEN
       LET gc == Add(st.gc, f[1])
           si == Add(st.si, f[2])
           ol == Add(st.ol, f[3])
           oc == Add(st.oc, f[4])
           ni == IF n = 5 THEN Add(st.ni, f[5]) ELSE st.ni
       IN [base EXCEPT !.gc = gc, !.si = si, !.ol = ol, !.oc = oc, !.ni = ni,
             !.segs = Append(st.segs,
                        [gl |-> st.line, gc |-> gc, si |-> si, ol |-> ol,
                         oc |-> oc, ni |-> IF n = 5 THEN ni ELSE -1]),
             !.wf = st.wf /\ gc >= 0 /\ si >= 0 /\ ol >= 1 /\ oc >= 0
                          /\ ni >= 0 /\ AddOK(st.gc, f[1]) /\ AddOK(st.si, f[2])
                          /\ AddOK(st.ol, f[3]) /\ AddOK(st.oc, f[4])
                          /\ (n = 5 => AddOK(st.ni, f[5]))]
     ELSE [base EXCEPT !.wf = FALSE]

DecStep(st, c) ==
  IF c = COMMA THEN EndSegment(st)
  ELSE IF c = SEMI THEN
    LET e == EndSegment(st) IN [e EXCEPT !.line = e.line + 1, !.gc = 0]
  ELSE LET v == B64Val(c) IN
    IF v < 0 THEN [st EXCEPT !.wf = FALSE]
    ELSE
      LET data == v % 32
          more == v >= 32
          first == st.k < 0
          k == IF first THEN 0 ELSE st.k
          neg == IF first THEN data % 2 = 1 ELSE st.neg
          over == ~first /\ data # 0 /\ (k > 6 \/ (k = 6 /\ data > 3))
          add == IF first THEN data \div 2
                 ELSE IF data = 0 \/ over THEN 0 ELSE data * Weight[k]
          mag == (IF first THEN 0 ELSE st.mag) + add
          ovf == (IF first THEN FALSE ELSE st.ovf) \/ over
      IN IF more
           THEN [st EXCEPT !.k = k + 1, !.mag = mag, !.neg = neg, !.ovf = ovf]
           ELSE [st EXCEPT !.k = -1, !.mag = 0, !.neg = FALSE, !.ovf = FALSE,
                   !.fields = Append(st.fields,
                                     IF ovf THEN 0 ELSE IF neg THEN -mag ELSE mag),
                   !.wf = st.wf /\ ~ovf]

DecodeState(chars) == EndSegment(FoldLeft(DecStep, DecInit, chars))

(* the segments the v3 format defines for this string *)
DecodeMappings(chars) == DecodeState(chars).segs

(* TRUE iff the string is in the grammar and all running values stay        *)
(* non-negative and within range                                            *)
WellFormedMappings(chars) == DecodeState(chars).wf

-----------------------------------------------------------------------------
(* Canonical encoding of a list of segments sorted by generated position    *)
(* (used by the generators to attach maps to SourceMapSource leaves).       *)
EncInit == [line |-> 1, gc |-> 0, si |-> 0, ol |-> 1, oc |-> 0, ni |-> 0,
            first |-> TRUE, out |-> <<>>]

EncStep(st, s) ==
  LET semis == [i \in 1..(s.gl - st.line) |-> SEMI]
      newline == s.gl > st.line
      sep == IF newline \/ st.first THEN <<>> ELSE <<COMMA>>
      gc0 == IF newline THEN 0 ELSE st.gc
      head == semis \o sep \o Digits(s.gc - gc0)
  IN IF s.si < 0
       THEN [st EXCEPT !.line = s.gl, !.gc = s.gc, !.first = FALSE,
                       !.out = st.out \o head]
       ELSE
         LET body == Digits(s.si - st.si) \o Digits(s.ol - st.ol)
                       \o Digits(s.oc - st.oc)
                       \o (IF s.ni >= 0 THEN Digits(s.ni - st.ni) ELSE <<>>)
         IN [st EXCEPT !.line = s.gl, !.gc = s.gc, !.first = FALSE,
                       !.si = s.si, !.ol = s.ol, !.oc = s.oc,
                       !.ni = IF s.ni >= 0 THEN s.ni ELSE st.ni,
                       !.out = st.out \o head \o body]

EncodeSegs(segs) == FoldLeft(EncStep, EncInit, segs).out

SegLt(a, b) == a.gl < b.gl \/ (a.gl = b.gl /\ a.gc < b.gc)
SegLe(a, b) == a.gl < b.gl \/ (a.gl = b.gl /\ a.gc <= b.gc)
SortedSegs(segs) == \A i \in 1..(Len(segs) - 1) : SegLe(segs[i], segs[i + 1])
StrictlySortedSegs(segs) ==
  \A i \in 1..(Len(segs) - 1) : SegLt(segs[i], segs[i + 1])
=============================================================================
