CONSTANT Delimit = FALSE
SPECIFICATION Spec
INVARIANT Separates
CHECK_DEADLOCK FALSE
ALIAS Alias
