CONSTANT Narrow = TRUE
SPECIFICATION Spec
INVARIANT RoundTrip
CHECK_DEADLOCK FALSE
