SPECIFICATION Spec
INVARIANT EncoderDesignOK
CHECK_DEADLOCK FALSE
