------------------------------ MODULE MC_SplitM -----------------------------
EXTENDS SplitM, TLC

cA == 97
cB == 98
Texts == {<<cA>>, <<cA, cB>>, <<cA, cB, cA>>, <<cA, NL>>, <<cA, cB, NL>>, <<cA, NL, cB>>,
          <<cA, cB, NL, cA>>, <<cA, NL, cB, cA>>, <<cA, NL, NL>>, <<NL>>, <<NL, cA>>, <<>>,
          <<cA, NL, NL, cB>>}
Origs == {<<-1, 0, 0, -1>>, <<0, 1, 0, -1>>, <<0, 2, 1, 0>>, <<1, 1, 2, -1>>}
Positions(t) ==
  LET ls == Lines(t)
  IN UNION {{<<ln, c>> : c \in 0..Len(ls[ln])} : ln \in 1..Len(ls)} \cup {EndPos(t)}
PosLt2(p, q) == p[1] < q[1] \/ (p[1] = q[1] /\ p[2] < q[2])
SegLists(t) ==
  LET P == Positions(t)
      mk(I, O) ==
        LET ps == SetToSortSeq(I, PosLt2)
        IN {[j \in 1..Len(ps) |-> [gl |-> ps[j][1], gc |-> ps[j][2], si |-> f[j][1],
                                   ol |-> f[j][2], oc |-> f[j][3], ni |-> f[j][4]]] :
              f \in [1..Len(ps) -> O]}
  IN UNION {mk(I, Origs) : I \in {J \in SUBSET P : Cardinality(J) <= 2}}
     \cup UNION {mk(I, {<<-1, 0, 0, -1>>, <<0, 2, 1, 0>>}) : I \in {J \in SUBSET P : Cardinality(J) = 3}}

SplitInputs == UNION {{<<t, sl>> : sl \in SegLists(t)} : t \in Texts}

(* well-formed chunk streams over small texts: every way to cut the text    *)
(* into chunks that do not continue past a line break, every attribution    *)
CutTexts == {<<cA, cA>>, <<cA, cA, NL, cA>>, <<cA, NL, cA, cA>>, <<cA, cA, cA>>, <<NL, cA, cA>>,
             <<cA, NL, NL, cA>>}
MustCut(t) == {i \in 1..(Len(t) - 1) : t[i] = NL}          \* cut after every line break
Cuts(t) == {C \in SUBSET (1..(Len(t) - 1)) : MustCut(t) \subseteq C}
ChunkAttrs == {<<-1, 0, 0, -1>>, <<0, 1, 0, -1>>, <<0, 1, 0, 0>>, <<1, 2, 3, -1>>}
Streams(t) ==
  UNION {
    LET cutSeq == SetToSortSeq(C \cup {Len(t)}, <)
        n == Len(cutSeq)
        pt == PosTable(t)
        piece(k) == SubSeq(t, IF k = 1 THEN 1 ELSE cutSeq[k - 1] + 1, cutSeq[k])
        start(k) == IF k = 1 THEN 1 ELSE cutSeq[k - 1] + 1
    IN {[k \in 1..n |->
           Chunk(piece(k), pt[start(k)][1], pt[start(k)][2],
                 [gl |-> 0, gc |-> 0, si |-> f[k][1], ol |-> f[k][2], oc |-> f[k][3], ni |-> f[k][4]])] :
          f \in [1..n -> ChunkAttrs]}
    : C \in Cuts(t)}
CachedInputs == UNION {Streams(t) : t \in CutTexts}

VARIABLES kind, input
Init == \/ (kind = "split" /\ input \in SplitInputs)
        \/ (kind = "cached" /\ input \in CachedInputs)
Next == UNCHANGED <<kind, input>>
Spec == Init /\ [][Next]_<<kind, input>>
DesignOK ==
  IF kind = "split"
    THEN SplitOK(input[1], input[2]) /\ SplitFinalOK(input[1], input[2])
         /\ SplitLinesOK(input[1], input[2])
    ELSE CachedTransparent(input)
=============================================================================
