--------------------------------- MODULE TV ---------------------------------
(***************************************************************************)
(* Trace validation.  The harness executed programs against the real crate  *)
(* and wrote one record per public call.  This specification replays the    *)
(* records: constructor and mutator records are the object machine's        *)
(* actions (they evolve `heap`), observer records are compared with what    *)
(* the denotational layer says the call must answer.  Instead of blocking   *)
(* at the first bad record, a failing predicate is reported and replay      *)
(* continues, so one run judges every record.                               *)
(*                                                                         *)
(*   env TRACE = ndjson file; its first record is                           *)
(*       {"op":"config","props":["C01",...]}                                *)
(*   output (one printed string each, payload is a JSON array):             *)
(*     "BAD [line, pid, property, predicate, class]" per failing predicate  *)
(*         (class names a known-finding shape, see Preds!KF, or ""),        *)
(*     "TVSTAT [property, predicate, count]" and "TVDONE [records, checks]" *)
(*     at the end.                                                          *)
(***************************************************************************)
EXTENDS Naturals, Integers, Sequences, FiniteSets, SequencesExt,
        FiniteSetsExt, Functions, TLC, Json, IOUtils, Text, Vlq, SMap, Sem, Preds

Rec == ndJsonDeserialize(IOEnv.TRACE)
NRec == Len(Rec)
Props == ToSet(Rec[1].props)

VARIABLES l, st, cnt
vars == <<l, st, cnt>>

Init == /\ l = 2
        /\ st = InitState
        /\ cnt = <<>>

Bump(c, S) ==
  [k \in DOMAIN c \cup S |->
     (IF k \in DOMAIN c THEN c[k] ELSE 0) + (IF k \in S THEN 1 ELSE 0)]

Step ==
  /\ l <= NRec
  /\ LET r == Rec[l]
         sel == {c \in Checks(r, st) : c[1] \in Props}
     IN /\ \A c \in sel :
             IF Holds(c, r, st) THEN TRUE
             ELSE PrintT("BAD " \o ToJson(<<l, r.pid, c[1], c[2], KF(c, r, st)>>))
        /\ st' = NextState(r, st)
        /\ cnt' = Bump(cnt, sel)
  /\ l' = l + 1

Spec == Init /\ [][Step]_vars

Done ==
  l = NRec + 1 =>
    /\ \A k \in DOMAIN cnt : PrintT("TVSTAT " \o ToJson(<<k[1], k[2], cnt[k]>>))
    /\ PrintT("TVDONE " \o ToJson(<<NRec, FoldFunction(+, 0, cnt)>>))
=============================================================================
