-------------------------------- MODULE VlqW --------------------------------
(***************************************************************************)
(* The source-map v3 VLQ format over the WHOLE range of the crate's u32     *)
(* fields.  TLC integers are 32-bit signed, so Vlq.tla stops below 2^31; a  *)
(* field of a Mapping goes up to 2^32 - 1 and the difference of two fields, *)
(* shifted left for the sign bit, needs 33 bits.  Here a value is a pair    *)
(* <<hi, lo>> of 16-bit halves (value = hi * 65536 + lo); nothing in this   *)
(* module ever forms a number above 2^19.                                   *)
(*                                                                         *)
(* Independent of the library: the decoder below reads a mappings string    *)
(* (segments of 4 or 5 relative fields, ',' and ';') into absolute wide     *)
(* fields; WDigits spells one signed wide difference canonically.           *)
(***************************************************************************)
EXTENDS Naturals, Integers, Sequences, FiniteSets, Vlq

H == 65536
WZero == <<0, 0>>
WOne == <<0, 1>>
IsW(a) == a[1] \in 0..(H - 1) /\ a[2] \in 0..(H - 1)

WLess(a, b) == a[1] < b[1] \/ (a[1] = b[1] /\ a[2] < b[2])

(* a - b for a >= b *)
WSubPos(a, b) ==
  IF a[2] >= b[2] THEN <<a[1] - b[1], a[2] - b[2]>>
  ELSE <<a[1] - b[1] - 1, a[2] + H - b[2]>>

(* a + b; the high half may leave 16 bits (then the sum is not a u32)       *)
WAdd(a, b) ==
  LET l == a[2] + b[2]
  IN <<a[1] + b[1] + (l \div H), l % H>>

(* signed difference a - b: <<negative, magnitude>>                         *)
WDelta(a, b) ==
  IF WLess(a, b) THEN <<TRUE, WSubPos(b, a)>> ELSE <<FALSE, WSubPos(a, b)>>

(* cur + (neg, mag); defined = stays a u32                                  *)
WApply(cur, neg, mag) ==
  IF neg
    THEN IF WLess(cur, mag) THEN [ok |-> FALSE, v |-> WZero]
         ELSE [ok |-> TRUE, v |-> WSubPos(cur, mag)]
    ELSE LET s == WAdd(cur, mag)
         IN IF s[1] >= H THEN [ok |-> FALSE, v |-> WZero] ELSE [ok |-> TRUE, v |-> s]

-----------------------------------------------------------------------------
(* Canonical spelling of one signed difference: v = 2 * magnitude + sign    *)
(* has up to 33 bits; digit k holds bits 5k .. 5k + 4 of v.                 *)
(* narrow = TRUE is the arithmetic of the crate before its repair (finding  *)
(* F21): the shift is done in 32 bits and bit 32 of v is lost.              *)
WDigitVals(neg, m, narrow) ==
  LET s == IF neg THEN 1 ELSE 0
      l2 == 2 * m[2] + s
      lo2 == l2 % H
      hi2w == 2 * m[1] + (l2 \div H)         \* < 2^17 + 1
      hi2 == IF narrow THEN hi2w % H ELSE hi2w
  IN << lo2 % 32, (lo2 \div 32) % 32, (lo2 \div 1024) % 32,
        (lo2 \div 32768) + (hi2 % 16) * 2,
        (hi2 \div 16) % 32, (hi2 \div 512) % 32, hi2 \div 16384 >>

WDigitsN(neg, m, narrow) ==
  LET ds == WDigitVals(neg, m, narrow)
      nz == {i \in 1..7 : ds[i] # 0}
      n == IF nz = {} THEN 1 ELSE CHOOSE i \in nz : \A j \in nz : j <= i
  IN [i \in 1..n |-> B64Char(ds[i] + IF i < n THEN 32 ELSE 0)]
WDigits(neg, m) == WDigitsN(neg, m, FALSE)

-----------------------------------------------------------------------------
(* Reading one value: the digit values v_0 .. v_k (without their            *)
(* continuation bits) of a VLQ.  Redundant high digits must be zero; the    *)
(* magnitude must fit 32 bits.                                              *)
WValueOf(vs) ==
  LET d(i) == IF i = 0 THEN (vs[1] % 32) \div 2
              ELSE IF i + 1 <= Len(vs) THEN vs[i + 1] % 32 ELSE 0
      neg == vs[1] % 2 = 1
      lo == d(0) + 16 * d(1) + 512 * d(2) + 16384 * (d(3) % 4)
      hi == (d(3) \div 4) + 8 * d(4) + 256 * d(5) + 8192 * d(6)
      fits == d(6) < 8 /\ \A i \in 8..Len(vs) : vs[i] % 32 = 0
  IN [ok |-> fits, neg |-> neg, mag |-> <<hi, lo>>]

(* split a byte string at a separator                                       *)
RECURSIVE SplitAt(_, _)
SplitAt(s, sep) ==
  IF \A i \in 1..Len(s) : s[i] # sep THEN <<s>>
  ELSE LET i == CHOOSE i \in 1..Len(s) : s[i] = sep /\ \A j \in 1..(i - 1) : s[j] # sep
       IN <<SubSeq(s, 1, i - 1)>> \o SplitAt(SubSeq(s, i + 1, Len(s)), sep)

(* the values of one segment: lists of digit values, cut after each digit   *)
(* without continuation bit; ok = only alphabet characters, last value      *)
(* finished                                                                  *)
RECURSIVE ValuesOf(_, _)
ValuesOf(s, cur) ==
  IF s = <<>> THEN [ok |-> cur = <<>>, vals |-> <<>>]
  ELSE LET v == B64Val(s[1])
       IN IF v < 0 THEN [ok |-> FALSE, vals |-> <<>>]
          ELSE IF v >= 32 THEN ValuesOf(Tail(s), Append(cur, v))
          ELSE LET rest == ValuesOf(Tail(s), <<>>)
               IN [ok |-> rest.ok, vals |-> <<Append(cur, v)>> \o rest.vals]

(* Decoder state: running absolute fields; segments are records            *)
(* [gl, gc, si, ol, oc, ni] with wide gc/si/ol/oc, ni = <<>> or <<wide>>;   *)
(* ol is 1-based as in the crate (v3 value + 1).                            *)
WInit == [gc |-> WZero, si |-> WZero, ol |-> WOne, oc |-> WZero, ni |-> WZero, ok |-> TRUE, segs |-> <<>>]

WSegment(st, line, text) ==
  LET vv == ValuesOf(text, <<>>)
      n == Len(vv.vals)
      val(i) == WValueOf(vv.vals[i])
      ap(cur, i) == WApply(cur, val(i).neg, val(i).mag)
  IN IF text = <<>> THEN st                                       \* empty segment: nothing
     ELSE IF ~vv.ok \/ n \notin {4, 5} \/ \E i \in 1..n : ~val(i).ok THEN [st EXCEPT !.ok = FALSE]
     ELSE LET gc == ap(st.gc, 1)  si == ap(st.si, 2)  ol == ap(st.ol, 3)  oc == ap(st.oc, 4)
              ni == IF n = 5 THEN ap(st.ni, 5) ELSE [ok |-> TRUE, v |-> st.ni]
          IN IF ~(gc.ok /\ si.ok /\ ol.ok /\ oc.ok /\ ni.ok) THEN [st EXCEPT !.ok = FALSE]
             ELSE [st EXCEPT !.gc = gc.v, !.si = si.v, !.ol = ol.v, !.oc = oc.v, !.ni = ni.v,
                             !.segs = Append(@, [gl |-> line, gc |-> gc.v, si |-> si.v, ol |-> ol.v,
                                                 oc |-> oc.v, ni |-> IF n = 5 THEN <<ni.v>> ELSE <<>>])]

RECURSIVE WSegments(_, _, _)
WSegments(st, line, texts) ==
  IF texts = <<>> THEN st ELSE WSegments(WSegment(st, line, Head(texts)), line, Tail(texts))

RECURSIVE WLines(_, _, _)
WLines(st, line, lines) ==
  IF lines = <<>> THEN st
  ELSE WLines(WSegments([st EXCEPT !.gc = WZero], line, SplitAt(Head(lines), COMMA)), line + 1, Tail(lines))

(* what the format says a mappings string of mapped segments means          *)
WDecode(m) == WLines(WInit, 1, SplitAt(m, SEMI))

-----------------------------------------------------------------------------
(* The canonical encoding of a list of mapped segments sorted by generated  *)
(* position, none of which repeats its predecessor's original location      *)
(* (so that nothing may be dropped): used by the design check below and as  *)
(* a second, stricter statement for records of the real encoder.            *)
RECURSIVE WEncodeFrom(_, _, _, _)
WEncodeFrom(st, line, segs, narrow) ==
  IF segs = <<>> THEN <<>>
  ELSE LET s == Head(segs)
           newline == s.gl > line
           gc0 == IF newline THEN WZero ELSE st.gc
           D(a, b) == LET d == WDelta(a, b) IN WDigitsN(d[1], d[2], narrow)
           body == D(s.gc, gc0) \o D(s.si, st.si) \o D(s.ol, st.ol) \o D(s.oc, st.oc)
                   \o (IF s.ni = <<>> THEN <<>> ELSE D(s.ni[1], st.ni))
           sep == IF newline THEN [i \in 1..(s.gl - line) |-> SEMI]
                  ELSE IF st.first THEN <<>> ELSE <<COMMA>>
           st2 == [gc |-> s.gc, si |-> s.si, ol |-> s.ol, oc |-> s.oc,
                   ni |-> IF s.ni = <<>> THEN st.ni ELSE s.ni[1], first |-> FALSE]
       IN sep \o body \o WEncodeFrom(st2, s.gl, Tail(segs), narrow)

WEncodeN(segs, narrow) ==
  WEncodeFrom([gc |-> WZero, si |-> WZero, ol |-> WOne, oc |-> WZero, ni |-> WZero, first |-> TRUE], 1, segs, narrow)
WEncode(segs) == WEncodeN(segs, FALSE)
-----------------------------------------------------------------------------
(* Corner values of the u32 range and segment lists built from them: the    *)
(* scope of the design check (MC_VlqW) and of the programs replayed against *)
(* the real codec (Gen scope c12wide).                                      *)
WD == {<<0, 0>>, <<0, 1>>, <<0, 15>>, <<0, 16>>, <<0, 65535>>, <<1, 0>>, <<16383, 65535>>, <<16384, 0>>,
       <<32767, 65535>>, <<32768, 0>>, <<32768, 1>>, <<49152, 7>>, <<65535, 65534>>, <<65535, 65535>>}

WSeg(gl, gc, si, ol, oc, ni) == [gl |-> gl, gc |-> gc, si |-> si, ol |-> ol, oc |-> oc, ni |-> ni]

(* one field takes corner values in two consecutive segments (sorted by     *)
(* generated position; consecutive segments never share an original         *)
(* location, so no segment may be dropped)                                  *)
WPairs ==
  {<<WSeg(1, a, WZero, WOne, WZero, <<>>), WSeg(IF WLess(b, a) \/ a = b THEN 2 ELSE 1, b, WOne, WOne, WZero, <<>>)>> : a \in WD, b \in WD}
  \cup {<<WSeg(1, WZero, a, WOne, WZero, <<>>), WSeg(1, WOne, b, <<0, 2>>, WZero, <<>>)>> : a \in WD, b \in WD}
  \cup {<<WSeg(1, WZero, WZero, a, WZero, <<>>), WSeg(1, WOne, WOne, b, WZero, <<>>)>> : a \in WD \ {WZero}, b \in WD \ {WZero}}
  \cup {<<WSeg(1, WZero, WZero, WOne, a, <<>>), WSeg(1, WOne, WOne, WOne, b, <<>>)>> : a \in WD, b \in WD}
  \cup {<<WSeg(1, WZero, WZero, WOne, WZero, <<a>>), WSeg(2, WOne, WOne, WOne, WZero, <<b>>)>> : a \in WD, b \in WD}

(* every field at a corner at once, three segments on three lines           *)
WTriples ==
  {<<WSeg(1, a, b, c, a, <<b>>), WSeg(2, b, c, a, b, <<>>), WSeg(3, c, a, b, c, <<a>>)>> :
     a \in {<<0, 0>>, <<32768, 0>>, <<65535, 65535>>}, b \in {<<0, 1>>, <<32767, 65535>>, <<65535, 65534>>},
     c \in {<<0, 16>>, <<32768, 1>>, <<65535, 65535>>}}

(* first mapped segment of every line, as the line-only encoder keeps it    *)
WFirstPerLine(segs) ==
  LET firsts == {i \in 1..Len(segs) : \A j \in 1..(i - 1) : segs[j].gl # segs[i].gl}
  IN {<<segs[i].gl, segs[i].si, segs[i].ol>> : i \in firsts}
=============================================================================
