CONSTANT Deep = FALSE
CONSTANT AttrScope = "full"
SPECIFICATION Spec
INVARIANT DesignOK
CHECK_DEADLOCK FALSE
