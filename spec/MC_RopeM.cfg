SPECIFICATION Spec
INVARIANT DesignOK
CHECK_DEADLOCK FALSE
