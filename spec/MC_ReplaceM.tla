----------------------------- MODULE MC_ReplaceM ----------------------------
EXTENDS ReplaceM, TLC

CONSTANT Deep     \* TRUE: also all pairs of replacements (135 845 inputs, minutes)

cA == 97
cX == 120
CutTexts == {<<cA, cA>>, <<cA, cA, NL, cA>>, <<cA, NL, cA, cA>>, <<cA, cA, cA>>, <<NL, cA, cA>>,
             <<cA, NL, NL, cA>>, <<cA, NL>>, <<>>, <<cA, cA, NL>>}
MustCut(t) == {i \in 1..(Len(t) - 1) : t[i] = NL}
Cuts(t) == {C \in SUBSET (1..(Len(t) - 1)) : MustCut(t) \subseteq C}
Streams(t) ==
  IF t = <<>> THEN {<<>>} ELSE
  {LET cutSeq == SetToSortSeq(C \cup {Len(t)}, <)
       pt == PosTable(t)
       start(k) == IF k = 1 THEN 1 ELSE cutSeq[k - 1] + 1
   IN [k \in 1..Len(cutSeq) |->
         [x |-> SubSeq(t, start(k), cutSeq[k]), gl |-> pt[start(k)][1], gc |-> pt[start(k)][2]]]
   : C \in Cuts(t)}

Repl(s, e, c, enf) == [s |-> s, e |-> e, c |-> c, n |-> <<>>, enf |-> enf, api |-> "replace_enf"]
Contents == {<<>>, <<cX>>, <<NL>>, <<cX, NL, cX>>}
Repls1(n) == {<<Repl(p[1], p[2], c, 1)>> :
                p \in {q \in (0..(n + 1)) \X (0..(n + 1)) : q[1] <= q[2]}, c \in Contents}
SlimRepls(n) == {<<Repl(p[1], p[2], c, enf)>> :
                   p \in {q \in (0..(n + 1)) \X (0..(n + 1)) : q[1] <= q[2]},
                   c \in {<<>>, <<cX>>, <<NL>>}, enf \in {0, 2}}
Inputs ==
  UNION {{<<cs, r>> : cs \in Streams(t), r \in {<<>>} \cup Repls1(Len(t))} : t \in CutTexts}
  \cup (IF ~Deep THEN
          UNION {{<<cs, r1 \o r2>> : cs \in Streams(t),
                    r1 \in {x \in SlimRepls(Len(t)) : x[1].enf = 0 /\ x[1].c # <<cX>>},
                    r2 \in {x \in SlimRepls(Len(t)) : x[1].enf = 2 /\ x[1].c # <<>>}} :
                  t \in {<<cA, NL, cA, cA>>}}
        ELSE
          UNION {{<<cs, r1 \o r2>> : cs \in Streams(t), r1 \in SlimRepls(Len(t)), r2 \in SlimRepls(Len(t))} :
                  t \in {<<cA, cA, NL, cA>>, <<cA, NL, cA, cA>>, <<cA, NL>>}})

VARIABLE input
Init == input \in Inputs
Next == UNCHANGED input
Spec == Init /\ [][Next]_input
DesignOK == ReplaceOK(input[1], input[2])
=============================================================================
