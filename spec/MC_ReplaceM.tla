----------------------------- MODULE MC_ReplaceM ----------------------------
EXTENDS ReplaceM, ReplReq, TLC

CONSTANT Deep,    \* TRUE: also all pairs of replacements (135 845 inputs, minutes)
         AttrScope \* "no" / "slim" / "full": inputs with attribution (C06 requirement)

cA == 97
cX == 120
CutTexts == {<<cA, cA>>, <<cA, cA, NL, cA>>, <<cA, NL, cA, cA>>, <<cA, cA, cA>>, <<NL, cA, cA>>,
             <<cA, NL, NL, cA>>, <<cA, NL>>, <<>>, <<cA, cA, NL>>}
MustCut(t) == {i \in 1..(Len(t) - 1) : t[i] = NL}
Cuts(t) == {C \in SUBSET (1..(Len(t) - 1)) : MustCut(t) \subseteq C}
Streams(t) ==
  IF t = <<>> THEN {<<>>} ELSE
  {LET cutSeq == SetToSortSeq(C \cup {Len(t)}, <)
       pt == PosTable(t)
       start(k) == IF k = 1 THEN 1 ELSE cutSeq[k - 1] + 1
   IN [k \in 1..Len(cutSeq) |->
         [x |-> SubSeq(t, start(k), cutSeq[k]), gl |-> pt[start(k)][1], gc |-> pt[start(k)][2]]]
   : C \in Cuts(t)}

Repl(s, e, c, enf) == [s |-> s, e |-> e, c |-> c, n |-> <<>>, enf |-> enf, api |-> "replace_enf"]
Contents == {<<>>, <<cX>>, <<NL>>, <<cX, NL, cX>>}
Repls1(n) == {<<Repl(p[1], p[2], c, 1)>> :
                p \in {q \in (0..(n + 1)) \X (0..(n + 1)) : q[1] <= q[2]}, c \in Contents}
SlimRepls(n) == {<<Repl(p[1], p[2], c, enf)>> :
                   p \in {q \in (0..(n + 1)) \X (0..(n + 1)) : q[1] <= q[2]},
                   c \in {<<>>, <<cX>>, <<NL>>}, enf \in {0, 2}}
Inputs ==
  UNION {{<<cs, r>> : cs \in Streams(t), r \in {<<>>} \cup Repls1(Len(t))} : t \in CutTexts}
  \cup (IF ~Deep THEN
          UNION {{<<cs, r1 \o r2>> : cs \in Streams(t),
                    r1 \in {x \in SlimRepls(Len(t)) : x[1].enf = 0 /\ x[1].c # <<cX>>},
                    r2 \in {x \in SlimRepls(Len(t)) : x[1].enf = 2 /\ x[1].c # <<>>}} :
                  t \in {<<cA, NL, cA, cA>>}}
        ELSE
          UNION {{<<cs, r1 \o r2>> : cs \in Streams(t), r1 \in SlimRepls(Len(t)), r2 \in SlimRepls(Len(t))} :
                  t \in {<<cA, cA, NL, cA>>, <<cA, NL, cA, cA>>, <<cA, NL>>}})

(* attribution: every chunk of a stream mapped the same way - to its own     *)
(* position in a file whose recorded content is the text itself (content    *)
(* matches), one column further (content differs), without content, with a  *)
(* name - or not mapped at all; replacements with and without names         *)
FileA == <<97, 46, 106, 115>>
NameN == <<110, 48>>
NameR == <<114>>
AttrKinds == {"none", "same", "shift", "nocontent", "named"}
WithAttr(cs, kind, t) ==
  [k \in 1..Len(cs) |->
     [x |-> cs[k].x, gl |-> cs[k].gl, gc |-> cs[k].gc,
      a |-> IF kind = "none" \/ (kind = "named" /\ k = 2) THEN Unmapped
            ELSE [m |-> TRUE, f |-> FileA, hc |-> kind # "nocontent",
                  ct |-> IF kind = "nocontent" THEN <<>> ELSE t,
                  l |-> cs[k].gl, c |-> cs[k].gc + (IF kind = "shift" THEN 1 ELSE 0),
                  hn |-> kind = "named", n |-> IF kind = "named" THEN NameN ELSE <<>>]]]
ReplN(s, e, c, n) == [s |-> s, e |-> e, c |-> c, n |-> n, enf |-> 1, api |-> "replace"]
AttrRepls(n) ==
  {<<ReplN(p[1], p[2], c, nm)>> :
     p \in {q \in (0..(n + 1)) \X (0..(n + 1)) : q[1] <= q[2]},
     c \in {<<>>, <<cX>>, <<cX, NL, cX>>}, nm \in {<<>>, <<NameR>>}}
AttrTexts == IF AttrScope = "full" THEN {<<cA, cA>>, <<cA, cA, NL, cA>>, <<cA, NL, cA, cA>>, <<cA, cA, cA>>}
             ELSE {<<cA, cA>>, <<cA, cA, NL, cA>>}
AttrInputs ==
  UNION {{<<WithAttr(cs, kind, t), r>> : cs \in Streams(t), kind \in AttrKinds, r \in AttrRepls(Len(t))} :
           t \in AttrTexts}
  \cup UNION {{<<WithAttr(cs, kind, t), r1 \o r2>> : cs \in Streams(t),
                  kind \in (IF AttrScope = "full" THEN {"same", "named"} ELSE {}),
                  r1 \in AttrRepls(Len(t)), r2 \in {x \in AttrRepls(Len(t)) : x[1].c = <<cX>> /\ x[1].n = <<>>}} :
                t \in {<<cA, cA, NL, cA>>}}

VARIABLE input
Init == input \in (IF AttrScope = "no" THEN Inputs ELSE AttrInputs)
Next == UNCHANGED input
Spec == Init /\ [][Next]_input
AttrOK(cs, repls) ==
  LET text == OutText(cs)
      res == ReplaceStream(cs, EndPos(text), Sorted(repls))
  IN ReplaceKeepsAttribution(cs, res.chunks, repls)
DesignOK ==
  /\ ReplaceOK(input[1], input[2])
  /\ (input[1] # <<>> /\ "a" \in DOMAIN input[1][1]) => AttrOK(input[1], input[2])
=============================================================================
