SPECIFICATION Spec
INVARIANT SameAnswer
CHECK_DEADLOCK FALSE
