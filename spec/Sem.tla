-------------------------------- MODULE Sem ---------------------------------
(***************************************************************************)
(* Denotation of source trees.  A tree is a record with a kind k:           *)
(*   raw      [sub \in {"str","buf","rawstr","rawbuf"}, b]                  *)
(*   orig     [b, name]                                                     *)
(*   sms      [b, name, map, inner (0/1 maps), osrc (0/1 texts), remove]    *)
(*   default  [b, map (0/1)]      user source over stream_chunks_default    *)
(*   script   [b, ev, end]        user source emitting scripted chunks      *)
(*   concat   [mode \in {"boxed","typed"}, ch, adds?]                       *)
(*   replace  [inner, repls]  repls in CALL order, each                     *)
(*              [s, e, c, n (0/1 names), enf \in 0..2, api]                 *)
(*   cached   [inner, cid]    clones share cid                              *)
(*   box      [inner]                                                       *)
(* These operators never look at how the library chunks or caches anything. *)
(***************************************************************************)
EXTENDS Naturals, Integers, Sequences, FiniteSets, SequencesExt,
        FiniteSetsExt, Text, Vlq, SMap

Nil == [k |-> "nil"]

Field(t, f, default) == IF f \in DOMAIN t THEN t[f] ELSE default

Children(t) == t.ch \o Field(t, "adds", <<>>)

-----------------------------------------------------------------------------
(* The reference replacement model (property C05).                          *)
KeyLt(a, b) ==
  \/ a.s < b.s
  \/ a.s = b.s /\ a.e < b.e
  \/ a.s = b.s /\ a.e = b.e /\ a.enf < b.enf
KeyEq(a, b) == a.s = b.s /\ a.e = b.e /\ a.enf = b.enf

(* indices of repls in application order: by (start, end, enforce), ties in *)
(* call order                                                               *)
StableOrder(repls) ==
  SetToSortSeq(1..Len(repls),
               LAMBDA i, j : KeyLt(repls[i], repls[j])
                             \/ (KeyEq(repls[i], repls[j]) /\ i < j))

MinN(a, b) == IF a < b THEN a ELSE b
MaxN(a, b) == IF a > b THEN a ELSE b

Splice(inner, repls) ==
  LET n == Len(inner)
      ord == StableOrder(repls)
      step(acc, i) ==
        LET r == repls[i]
            out == acc[1]
            pos == acc[2]
            copied == IF pos < r.s THEN SubSeq(inner, pos + 1, MinN(r.s, n))
                      ELSE <<>>
        IN <<out \o copied \o r.c, MinN(MaxN(pos, r.e), n)>>
      fin == FoldLeft(step, <<<<>>, 0>>, ord)
  IN fin[1] \o SubSeq(inner, fin[2] + 1, n)


(* Provenance of every byte of Splice(inner, repls) for an inner text of    *)
(* length n: either inner byte j, or byte i of the content of replacement r *)
(* (index into repls, call order) which was spliced in at inner offset at.  *)
ProvIn(j) == [k |-> "in", j |-> j, r |-> 0, i |-> 0, at |-> 0]
ProvRp(r, i, at) == [k |-> "rp", j |-> 0, r |-> r, i |-> i, at |-> at]

SpliceProv(n, repls) ==
  LET ord == StableOrder(repls)
      step(acc, ri) ==
        LET r == repls[ri]
            pos == acc[2]
            upto == MinN(r.s, n)
            copied == IF pos < upto THEN [x \in 1..(upto - pos) |-> ProvIn(pos + x)]
                      ELSE <<>>
            at == MaxN(pos, upto)
            content == [x \in 1..Len(r.c) |-> ProvRp(ri, x, at)]
        IN <<acc[1] \o copied \o content, MinN(MaxN(pos, r.e), n)>>
      fin == FoldLeft(step, <<<<>>, 0>>, ord)
  IN fin[1] \o [x \in 1..(n - fin[2]) |-> ProvIn(fin[2] + x)]

-----------------------------------------------------------------------------
RECURSIVE TextOf(_)
TextOf(t) ==
  CASE t.k = "raw" -> IF t.sub \in {"buf", "rawbuf"} THEN Lossy(t.b) ELSE t.b
    [] t.k \in {"orig", "sms", "default", "script", "yield"} -> t.b
    [] t.k = "concat" ->
         LET ch == Children(t)
         IN Concat([i \in 1..Len(ch) |-> TextOf(ch[i])])
    [] t.k = "replace" -> Splice(TextOf(t.inner), t.repls)
    [] t.k \in {"cached", "box"} -> TextOf(t.inner)

(* bytes of buffer(): binary leaves keep their exact bytes; a ReplaceSource *)
(* works on (decoded) text                                                  *)
RECURSIVE BufOf(_)
BufOf(t) ==
  CASE t.k = "raw" -> t.b
    [] t.k \in {"orig", "sms", "default", "script", "yield"} -> t.b
    [] t.k = "concat" ->
         LET ch == Children(t)
         IN Concat([i \in 1..Len(ch) |-> BufOf(ch[i])])
    [] t.k = "replace" -> Splice(TextOf(t.inner), t.repls)
    [] t.k \in {"cached", "box"} -> BufOf(t.inner)

RECURSIVE Kinds(_)
Kinds(t) ==
  {t.k} \cup
  CASE t.k = "concat" ->
         LET ch == Children(t) IN UNION {Kinds(ch[i]) : i \in 1..Len(ch)}
    [] t.k \in {"replace", "cached", "box"} -> Kinds(t.inner)
    [] OTHER -> {}

RECURSIVE AllLeavesUtf8(_)
AllLeavesUtf8(t) ==
  CASE t.k = "raw" -> IsUtf8(t.b)
    [] t.k = "concat" ->
         LET ch == Children(t) IN \A i \in 1..Len(ch) : AllLeavesUtf8(ch[i])
    [] t.k \in {"replace", "cached", "box"} -> AllLeavesUtf8(t.inner)
    [] OTHER -> TRUE

(* substitute register references by the trees the registers hold           *)
RECURSIVE Close(_, _)
Close(t, heap) ==
  CASE t.k = "reg" -> heap[t.r]
    [] t.k = "concat" ->
         LET c == [t EXCEPT !.ch = [i \in 1..Len(t.ch) |-> Close(t.ch[i], heap)]]
         IN IF "adds" \in DOMAIN t
              THEN [c EXCEPT !.adds = [i \in 1..Len(t.adds) |-> Close(t.adds[i], heap)]]
              ELSE c
    [] t.k \in {"replace", "cached", "box"} ->
         [t EXCEPT !.inner = Close(t.inner, heap)]
    [] OTHER -> t

-----------------------------------------------------------------------------
(* Domain predicates: what the properties call "ASCII texts" and "maps      *)
(* consistent with their text".                                             *)
SegsInside(segs, text) ==
  LET ls == Lines(text)
  IN \A i \in 1..Len(segs) :
       /\ segs[i].gl >= 1 /\ segs[i].gl <= Len(ls)
       /\ segs[i].gc >= 0 /\ segs[i].gc < Len(ls[segs[i].gl])

MapConsistent(map, text) ==
  LET segs == DecodeMappings(map.m)
  IN /\ WellFormedMappings(map.m)
     /\ SortedSegs(segs)
     /\ SegsInside(segs, text)
     /\ \A i \in 1..Len(segs) :
          segs[i].si < Len(map.sources) /\ segs[i].ni < Len(map.names)

RECURSIVE AsciiConsistent(_)
AsciiConsistent(t) ==
  CASE t.k = "raw" -> IsAscii(t.b)
    [] t.k = "orig" -> IsAscii(t.b)
    [] t.k = "sms" -> IsAscii(t.b) /\ MapConsistent(t.map, t.b)
                        /\ t.inner = <<>>
    [] t.k = "default" ->
         IsAscii(t.b) /\ (t.map = <<>> \/ MapConsistent(t.map[1], t.b))
    [] t.k = "script" -> IsAscii(t.b)
    [] t.k = "yield" -> IsAscii(t.b)
    [] t.k = "concat" ->
         LET ch == Children(t) IN \A i \in 1..Len(ch) : AsciiConsistent(ch[i])
    [] t.k = "replace" ->
         /\ AsciiConsistent(t.inner)
         /\ \A i \in 1..Len(t.repls) :
              IsAscii(t.repls[i].c) /\ t.repls[i].s <= t.repls[i].e
    [] t.k \in {"cached", "box"} -> AsciiConsistent(t.inner)

(* Trees in which every column the crate reports is a byte offset into the  *)
(* (lossily decoded) text, whatever the text: raw and original leaves,      *)
(* ConcatSource, ReplaceSource with its positions on character boundaries   *)
(* of the inner text (or beyond its end), boxes.  A SourceMapSource - and   *)
(* hence the replay of a CachedSource - slices lines by character index     *)
(* (known finding K4), so those stay inside AsciiConsistent.                *)
RECURSIVE ByteColumnTree(_)
ByteColumnTree(t) ==
  CASE t.k \in {"raw", "orig"} -> TRUE
    [] t.k = "concat" ->
         LET ch == Children(t) IN \A i \in 1..Len(ch) : ByteColumnTree(ch[i])
    [] t.k = "replace" ->
         /\ ByteColumnTree(t.inner)
         /\ LET inner == TextOf(t.inner)
                ok(p) == p >= Len(inner) \/ p \in Boundaries(inner)
            IN \A i \in 1..Len(t.repls) :
                 /\ t.repls[i].s <= t.repls[i].e /\ ok(t.repls[i].s) /\ ok(t.repls[i].e)
                 /\ IsUtf8(t.repls[i].c)
    [] t.k = "box" -> ByteColumnTree(t.inner)
    [] OTHER -> FALSE

(* where generated positions are judged (C02, C03, C11)                     *)
PosDomain(t) == AsciiConsistent(t) \/ ByteColumnTree(t)

(* C08's domain: segments sorted, on characters of the text or zero-width   *)
(* at the end of a line / of the text, indices inside the tables            *)
MapFitsText(map, text) ==
  LET segs == DecodeMappings(map.m)
      ls == Lines(text)
  IN /\ WellFormedMappings(map.m)
     /\ StrictlySortedSegs(segs)
     /\ \A i \in 1..Len(segs) :
          /\ \/ (segs[i].gl >= 1 /\ segs[i].gl <= Len(ls) /\ segs[i].gc <= Len(ls[segs[i].gl]))
             \/ <<segs[i].gl, segs[i].gc>> = EndPos(text)
          /\ segs[i].si < Len(map.sources) /\ segs[i].ni < Len(map.names)
          /\ segs[i].si >= 0 => segs[i].ol >= 1

IsMapLeaf(t) ==
  \/ (t.k = "sms" /\ t.inner = <<>>)
  \/ (t.k = "default" /\ t.map # <<>>)
LeafMap(t) == IF t.k = "sms" THEN t.map ELSE t.map[1]

(* every (file name, has content, content) a tree can announce: the domain  *)
(* of C04 / C06 requires that a name shared between leaves carries the same *)
(* content everywhere                                                       *)
MapFileEntries(m) ==
  {<<FileOf(m, i - 1), HasContent(m, i - 1), ContentOf(m, i - 1)>> :
     i \in 1..Len(m.sources)}

RECURSIVE TreeFileEntries(_)
TreeFileEntries(t) ==
  CASE t.k = "orig" -> {<<t.name, t.b # <<>>, t.b>>}
    [] t.k = "sms" ->
         MapFileEntries(t.map)
         \cup (IF t.inner = <<>> THEN {} ELSE MapFileEntries(t.inner[1]))
    [] t.k = "default" -> IF t.map = <<>> THEN {} ELSE MapFileEntries(t.map[1])
    [] t.k = "script" ->
         {<<t.ev[i].name, t.ev[i].c # <<>> /\ t.ev[i].c # <<<<>>>>,
            IF t.ev[i].c = <<>> THEN <<>> ELSE t.ev[i].c[1]>> :
            i \in {j \in 1..Len(t.ev) : t.ev[j].t = "S"}}
    [] t.k = "concat" ->
         LET ch == Children(t) IN UNION {TreeFileEntries(ch[i]) : i \in 1..Len(ch)}
    [] t.k \in {"replace", "cached", "box"} -> TreeFileEntries(t.inner)
    [] OTHER -> {}

SharedNamesAgreeInTree(t) ==
  LET all == TreeFileEntries(t)
  IN \A x \in all : \A y \in all : x[1] = y[1] => x = y

-----------------------------------------------------------------------------
(* Byte provenance (property C04), independent of any chunking: every byte  *)
(* of Text(t) is a copy of a byte of an OriginalSource text (file, line,    *)
(* column), raw text, or replacement content.                               *)
PRaw == [k |-> "raw", f |-> <<>>, l |-> 0, c |-> 0]
PRepl == [k |-> "repl", f |-> <<>>, l |-> 0, c |-> 0]
POrig(f, l, c) == [k |-> "orig", f |-> f, l |-> l, c |-> c]

RECURSIVE Prov(_)
Prov(t) ==
  CASE t.k = "orig" ->
         LET pt == PosTable(t.b)
         IN [i \in 1..Len(t.b) |-> POrig(t.name, pt[i][1], pt[i][2])]
    [] t.k = "concat" ->
         LET ch == Children(t) IN Concat([i \in 1..Len(ch) |-> Prov(ch[i])])
    [] t.k = "replace" ->
         LET ip == Prov(t.inner)
             sp == SpliceProv(Len(ip), t.repls)
         IN [b \in 1..Len(sp) |-> IF sp[b].k = "in" THEN ip[sp[b].j] ELSE PRepl]
    [] t.k \in {"cached", "box"} -> Prov(t.inner)
    [] OTHER -> [i \in 1..Len(TextOf(t)) |-> PRaw]

(* The documented splitting rule of OriginalSource,                         *)
(*   /[^\n;{}]+[;{} \r\t]*\n?|[;{} \r\t]+\n?|\n/                          *)
(* as positions: a statement starts at the start of a line's text or after  *)
(* a run of ; { } with the blanks mixed into or following it.               *)
IsSepByte(b) == b \in {59, 123, 125}
IsTailByte(b) == b \in {59, 123, 125, 32, 13, 9}

RECURSIVE SkipBody(_, _)
SkipBody(t, i) ==
  IF i > Len(t) \/ t[i] = NL \/ IsSepByte(t[i]) THEN i ELSE SkipBody(t, i + 1)
RECURSIVE SkipTail(_, _)
SkipTail(t, i) == IF i <= Len(t) /\ IsTailByte(t[i]) THEN SkipTail(t, i + 1) ELSE i

TokenEnd(t, i) ==
  LET b == SkipTail(t, SkipBody(t, i))
  IN IF b <= Len(t) /\ t[b] = NL THEN b + 1 ELSE b

RECURSIVE TokenStartsFrom(_, _)
TokenStartsFrom(t, i) ==
  IF i > Len(t) THEN {} ELSE {i} \cup TokenStartsFrom(t, TokenEnd(t, i))

(* 1-based byte indices that begin a statement (a lone line break is no     *)
(* statement)                                                               *)
StatementStarts(t) == {i \in TokenStartsFrom(t, 1) : t[i] # NL}

(* per output byte: does it begin a statement of its OriginalSource?        *)
RECURSIVE StmtFlags(_)
StmtFlags(t) ==
  CASE t.k = "orig" ->
         LET ss == StatementStarts(t.b) IN [i \in 1..Len(t.b) |-> i \in ss]
    [] t.k = "concat" ->
         LET ch == Children(t) IN Concat([i \in 1..Len(ch) |-> StmtFlags(ch[i])])
    [] t.k = "replace" ->
         LET ip == StmtFlags(t.inner)
             sp == SpliceProv(Len(ip), t.repls)
         IN [b \in 1..Len(sp) |-> IF sp[b].k = "in" THEN ip[sp[b].j] ELSE FALSE]
    [] t.k \in {"cached", "box"} -> StmtFlags(t.inner)
    [] OTHER -> [i \in 1..Len(TextOf(t)) |-> FALSE]

RECURSIVE CachedUnderReplace(_)
CachedUnderReplace(t) ==
  CASE t.k = "replace" -> "cached" \in Kinds(t.inner) \/ CachedUnderReplace(t.inner)
    [] t.k = "concat" ->
         LET ch == Children(t) IN \E i \in 1..Len(ch) : CachedUnderReplace(ch[i])
    [] t.k \in {"cached", "box"} -> CachedUnderReplace(t.inner)
    [] OTHER -> FALSE

C04Domain(t) ==
  /\ Kinds(t) \subseteq {"raw", "orig", "concat", "replace", "cached", "box"}
  /\ AsciiConsistent(t)
  /\ ~CachedUnderReplace(t)
  /\ SharedNamesAgreeInTree(t)

(* structural identity of trees: what "built by the same constructor calls" *)
(* means; cache identities are not part of it                               *)
RECURSIVE Strip(_)
Strip(t) ==
  CASE t.k = "cached" -> [k |-> "cached", inner |-> Strip(t.inner)]
    [] t.k = "box" -> [k |-> "box", inner |-> Strip(t.inner)]
    [] t.k = "replace" -> [k |-> "replace", inner |-> Strip(t.inner), repls |-> t.repls]
    [] t.k = "concat" ->
         LET ch == Children(t)
         IN [k |-> "concat", mode |-> t.mode, ch |-> [i \in 1..Len(t.ch) |-> Strip(t.ch[i])],
             adds |-> [i \in 1..(Len(ch) - Len(t.ch)) |-> Strip(ch[Len(t.ch) + i])]]
    [] OTHER -> t
=============================================================================
