SPECIFICATION Spec
INVARIANT Transparent
CHECK_DEADLOCK FALSE
