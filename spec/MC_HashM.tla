------------------------------- MODULE MC_HashM ------------------------------
EXTENDS HashM, TLC, SequencesExt
CONSTANT Delimit

cX == 120
cY == 121
cZ == 90
RawL(b) == [k |-> "raw", sub |-> "str", b |-> b]
OrigL(b) == [k |-> "orig", b |-> b, name |-> <<97>>]
CCb(ch) == [k |-> "concat", mode |-> "boxed", ch |-> ch]
Rp(s, e, c) == [s |-> s, e |-> e, c |-> c, n |-> <<>>, enf |-> 1, api |-> "replace"]
Repls == {<<>>, <<Rp(1, 2, <<cZ>>)>>}
Leaves == {RawL(<<cX>>), OrigL(<<cX>>)}
Seqs12(S) == {<<p>> : p \in S} \cup {<<p, q>> : p \in S, q \in S}
C1 == {CCb(ch) : ch \in Seqs12(Leaves)}
RC == {[k |-> "replace", inner |-> c, repls |-> r] : c \in C1 \cup Leaves, r \in Repls}
       \cup {[k |-> "cached", cid |-> 1, inner |-> c] : c \in C1}
Pool == Leaves \cup C1 \cup RC
Scope == Pool \cup {CCb(ch) : ch \in Seqs12(Leaves \cup RC)}

ObsOf(t) == <<TextOf(t), Prov(t)>>

VARIABLE a
Init == a \in Scope
Next == UNCHANGED a
Spec == Init /\ [][Next]_a
(* equal feeds (equal hashes under every Hasher) only for trees with equal  *)
(* observables                                                              *)
Separates ==
  LET fa == FeedV(Delimit, a)
      oa == ObsOf(a)
  IN \A b \in Scope : fa = FeedV(Delimit, b) => oa = ObsOf(b)
(* for the error trace                                                      *)
Witness == {b \in Scope : FeedV(Delimit, a) = FeedV(Delimit, b) /\ ObsOf(a) # ObsOf(b)}
Alias == [a |-> a, collides_with |-> Witness]
=============================================================================
