------------------------------ MODULE ReplaceM ------------------------------
(***************************************************************************)
(* Implementation-shaped model of ReplaceSource::stream_chunks              *)
(* (src/replace_source.rs): the bookkeeping it carries from chunk to chunk  *)
(*   pos   inner byte position reached        i     next replacement       *)
(*   rend  end of the region being replaced (-1 = none)                     *)
(*   glo   generated line offset                                            *)
(*   gco / gcol  generated column offset and the output line it is valid on *)
(* with one branch per branch of the on-chunk handler (skip whole chunk,    *)
(* partial skip, emit up to a replacement, insert replacement content line  *)
(* by line, skip after a replacement, emit the rest) and the trailing loop  *)
(* for replacements at or beyond the end.  Only text and generated          *)
(* positions are modelled (attribution is judged on recorded streams).      *)
(* MC_ReplaceM checks the design against the reference replacement model    *)
(* Sem!Splice and the position table; trace validation compares the real    *)
(* stream with the model's chunks (model conformance only).                 *)
(*   inner chunk = [x, gl, gc];  output chunk = [x, gl, gc]                 *)
(***************************************************************************)
EXTENDS Naturals, Integers, Sequences, FiniteSets, SequencesExt,
        FiniteSetsExt, Text, Vlq, SMap, Sem

EndsNL(x) == x # <<>> /\ x[Len(x)] = NL
Slice(x, a, b) == SubSeq(x, a + 1, b)      \* bytes a..b (0-based, b exclusive)


Col(L, line, col) == col + (IF line = L.gcol THEN L.gco ELSE 0)
Emit(L, x, line, col, a) == Append(L.out, [x |-> x, gl |-> line, gc |-> Col(L, line, col), a |-> a])

(* attribution (by value, SMap!SegAttr form) of the chunk in hand; a chunk   *)
(* without the field is unmapped text                                       *)
AttrOf(c) == IF "a" \in DOMAIN c THEN c.a ELSE Unmapped
(* check_original_content: the recorded content of the chunk's file holds    *)
(* `expected` at the chunk's original position                              *)
ContentHas(a, expected) ==
  /\ a.m
  /\ LET ls == Lines(a.ct)
     IN /\ a.l >= 1 /\ a.l <= Len(ls)
        /\ IsPrefix(expected, SubSeq(ls[a.l], a.c + 1, Len(ls[a.l])))
Advance(a, expected) == IF ContentHas(a, expected) THEN [a EXCEPT !.c = @ + Len(expected)] ELSE a
(* what replacement content carries: the location active at its start, the  *)
(* replacement's name (or the chunk's) on its first line only               *)
ReplAttr(a, r, first) ==
  IF ~a.m THEN Unmapped
  ELSE IF ~first THEN [a EXCEPT !.hn = FALSE, !.n = <<>>]
  ELSE IF r.n # <<>> THEN [a EXCEPT !.hn = TRUE, !.n = r.n[1]] ELSE a

(* a chunk (or the rest of it) that lies inside a replaced region is skipped *)
SkipRest(L, c, skipped) ==
  LET line == c.gl + L.glo
  IN IF EndsNL(c.x)
       THEN [L EXCEPT !.glo = @ - 1,
                      !.gco = IF L.gcol = line THEN @ + L.mgc ELSE L.mgc,
                      !.gcol = line]
       ELSE [L EXCEPT !.gco = IF L.gcol = line THEN @ - skipped ELSE 0 - skipped,
                      !.gcol = line]

(* replacement content, one chunk per line                                  *)
InsertLines(L, c, lines, r) ==
  LET step(acc, k) ==
        LET A == acc[1]
            line == acc[2]
            cl == lines[k]
            out == Emit(A, cl, line, A.mgc, ReplAttr(A.org, r, k = 1))
        IN IF k = Len(lines) /\ ~EndsNL(cl)
             THEN <<[A EXCEPT !.out = out,
                              !.gco = IF A.gcol = line THEN @ + Len(cl) ELSE Len(cl),
                              !.gcol = line], line>>
             ELSE <<[A EXCEPT !.out = out, !.glo = @ + 1, !.gco = 0 - A.mgc,
                              !.gcol = line + 1], line + 1>>
  IN FoldLeft(step, <<L, c.gl + L.glo>>, [k \in 1..Len(lines) |-> k])[1]

(* "Is a replacement in the chunk?" - the while loop                        *)
RECURSIVE InChunk(_, _, _, _)
InChunk(L, c, repls, endPos) ==
  IF L.done \/ L.i > Len(repls) \/ repls[L.i].s >= endPos THEN L
  ELSE
    LET r == repls[L.i]
        line == c.gl + L.glo
        \* emit the chunk up to the replacement
        before == r.s > L.pos
        off == r.s - L.pos
        L1 == IF before
                THEN [L EXCEPT !.out = Emit(L, Slice(c.x, L.cpos, L.cpos + off), line, L.mgc, L.org),
                               !.mgc = @ + off, !.cpos = @ + off, !.pos = r.s,
                               !.org = Advance(@, Slice(c.x, L.cpos, L.cpos + off))]
                ELSE L
        L2 == InsertLines(L1, c, Lines(r.c), r)
        rend == IF L2.rend < 0 THEN r.e ELSE MaxN(L2.rend, r.e)
        L3 == [L2 EXCEPT !.rend = rend, !.i = @ + 1]
        skip == rend - L3.pos
    IN IF skip <= 0 THEN InChunk(L3, c, repls, endPos)
       ELSE IF rend >= endPos
         THEN [SkipRest(L3, c, Len(c.x) - L3.cpos) EXCEPT !.pos = endPos, !.done = TRUE]
       ELSE
         LET line3 == c.gl + L3.glo
         IN InChunk([L3 EXCEPT !.cpos = @ + skip, !.pos = @ + skip, !.mgc = @ + skip,
                               !.gco = IF L3.gcol = line3 THEN @ - skip ELSE 0 - skip,
                               !.gcol = line3,
                               !.org = Advance(@, Slice(c.x, L3.cpos, L3.cpos + skip))],
                    c, repls, endPos)

ReplInit == [pos |-> 0, i |-> 1, rend |-> -1, glo |-> 0, gco |-> 0, gcol |-> 0, out |-> <<>>,
             cpos |-> 0, mgc |-> 0, done |-> FALSE, org |-> Unmapped]

OnChunk(L0, c, repls) ==
  LET endPos == L0.pos + Len(c.x)
      L == [L0 EXCEPT !.cpos = 0, !.mgc = c.gc, !.done = FALSE, !.org = AttrOf(c)]
      inside == L.rend >= 0 /\ L.rend > L.pos
  IN IF inside /\ L.rend >= endPos
       THEN [SkipRest(L, c, Len(c.x)) EXCEPT !.pos = endPos]        \* skip over the whole chunk
     ELSE
       LET part == IF inside THEN L.rend - L.pos ELSE 0               \* partially skip over chunk
           line == c.gl + L.glo
           La == IF inside
                   THEN [L EXCEPT !.cpos = part, !.pos = @ + part, !.mgc = @ + part,
                                  !.gco = IF L.gcol = line THEN @ - part ELSE 0 - part,
                                  !.gcol = line,
                                  !.org = Advance(@, Slice(c.x, 0, part))]
                   ELSE L
           Lb == InChunk(La, c, repls, endPos)
       IN IF Lb.done THEN Lb
          ELSE IF Lb.cpos < Len(c.x)                                   \* emit remaining chunk
            THEN [Lb EXCEPT !.out = Emit(Lb, Slice(c.x, Lb.cpos, Len(c.x)), c.gl + Lb.glo, Lb.mgc, Lb.org),
                            !.pos = endPos]
            ELSE [Lb EXCEPT !.pos = endPos]

(* the stream of a ReplaceSource over an inner stream `chunks` that ends at *)
(* `innerEnd`; repls in application order (Sem!StableOrder applied)         *)
ReplaceStream(chunks, innerEnd, repls) ==
  LET L == FoldLeft(LAMBDA acc, c : OnChunk(acc, c, repls), ReplInit, chunks)
      rest == Concat([k \in 1..(Len(repls) - L.i + 1) |-> repls[L.i + k - 1].c])
      lines == Lines(rest)
      step(acc, k) ==
        LET A == acc[1]
            line == acc[2]
            cl == lines[k]
            out == Emit(A, cl, line, innerEnd[2], Unmapped)
        IN IF k = Len(lines) /\ ~EndsNL(cl)
             THEN <<[A EXCEPT !.out = out,
                              !.gco = IF A.gcol = line THEN @ + Len(cl) ELSE Len(cl),
                              !.gcol = line], line>>
             ELSE <<[A EXCEPT !.out = out, !.glo = @ + 1, !.gco = 0 - innerEnd[2],
                              !.gcol = line + 1], line + 1>>
      fin == FoldLeft(step, <<L, innerEnd[1] + L.glo>>, [k \in 1..Len(lines) |-> k])
  IN [chunks |-> fin[1].out,
      end |-> <<fin[2], Col(fin[1], fin[2], innerEnd[2])>>]

-----------------------------------------------------------------------------
OutText(cs) == Concat([i \in 1..Len(cs) |-> cs[i].x])
OutPositionsTrue(cs) ==
  LET pt == PosTable(OutText(cs))
      offs == FoldLeft(LAMBDA acc, c : <<Append(acc[1], acc[2]), acc[2] + Len(c.x)>>,
                       <<<<>>, 0>>, cs)[1]
  IN \A j \in 1..Len(cs) : <<cs[j].gl, cs[j].gc>> = pt[offs[j] + 1]

Sorted(repls) == LET o == StableOrder(repls) IN [k \in 1..Len(o) |-> repls[o[k]]]

ReplaceOK(innerChunks, repls) ==
  LET text == OutText(innerChunks)
      res == ReplaceStream(innerChunks, EndPos(text), Sorted(repls))
      expect == Splice(text, repls)
  IN /\ OutText(res.chunks) = expect
     /\ OutPositionsTrue(res.chunks)
     /\ res.end = EndPos(expect)
=============================================================================
