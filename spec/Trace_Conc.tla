----------------------------- MODULE Trace_Conc -----------------------------
(***************************************************************************)
(* Conformance of recorded concurrent runs with Conc.tla.  Every "ev"       *)
(* record of a run (the scheduler's release order of the crate's schedule   *)
(* points) must be a step of Conc: the released thread must be parked, in   *)
(* the model, at the point the record names, and the model's Release(t)     *)
(* must be enabled (e.g. the shard lock is free).  Log-only events confirm  *)
(* the branch the model took (cache hit / miss).  A run that leaves the     *)
(* model is reported as drift (never as a property violation) and skipped   *)
(* to its end; the next run starts from Init again.                         *)
(*   env TRACE = ndjson; first record {"op":"config","shards":[s0, s1]}     *)
(***************************************************************************)
EXTENDS Conc, IOUtils, SequencesExt

Rec == ndJsonDeserialize(IOEnv.TRACE)
NRec == Len(Rec)

TraceThreads == {0, 1, 2}
TraceShardOf == [k \in {0, 1} |-> Rec[1].shards[k + 1]]
(* not used for Init here: programs come from the trace                     *)
TracePrograms == {}

VARIABLES l, drifted, accepted, rejected

tvars == <<vars, l, drifted, accepted, rejected>>

ModelOf(r) ==
  [t \in TraceThreads |-> IF t + 1 <= Len(r.model) THEN r.model[t + 1] ELSE <<>>]

Reset(r) ==
  /\ prog' = ModelOf(r)
  /\ pc' = [t \in TraceThreads |-> IF t + 1 <= Len(r.model) /\ Len(r.model[t + 1]) > 0 THEN "idle" ELSE "done"]
  /\ opi' = [t \in TraceThreads |-> 1]
  /\ cache' = [k \in Keys |-> 0]
  /\ lock' = [s \in {ShardOf[k] : k \in Keys} |-> -1]
  /\ nextId' = 2
  /\ tmp' = [t \in TraceThreads |-> 0]
  /\ flag' = [o \in Objects |-> FALSE]
  /\ idx' = [o \in Objects |-> "stale"]
  /\ ilock' = [o \in Objects |-> -1]
  /\ hist' = <<>>
  /\ bad' = {}

TraceInit ==
  /\ l = 2 /\ drifted = FALSE /\ accepted = 0 /\ rejected = 0
  /\ prog = [t \in TraceThreads |-> <<>>]
  /\ pc = [t \in TraceThreads |-> "done"]
  /\ opi = [t \in TraceThreads |-> 1]
  /\ cache = [k \in Keys |-> 0]
  /\ lock = [s \in {ShardOf[k] : k \in Keys} |-> -1]
  /\ nextId = 2
  /\ tmp = [t \in TraceThreads |-> 0]
  /\ flag = [o \in Objects |-> FALSE]
  /\ idx = [o \in Objects |-> "stale"]
  /\ ilock = [o \in Objects |-> -1]
  /\ hist = <<>>
  /\ bad = {}

PointName(id) == IF id = "op.start" THEN "idle" ELSE id

Skip == l' = l + 1 /\ UNCHANGED <<vars, drifted, accepted, rejected>>

TraceNext ==
  /\ l <= NRec
  /\ LET r == Rec[l] IN
     CASE r.op = "conc_begin" ->
            /\ Reset(r) /\ l' = l + 1 /\ drifted' = FALSE
            /\ UNCHANGED <<accepted, rejected>>
       [] r.op = "conc_end" ->
            /\ l' = l + 1
            /\ IF drifted \/ ~AllDone \/ bad # {}
                 THEN /\ rejected' = rejected + 1 /\ UNCHANGED accepted
                      /\ PrintT("TCDRIFT " \o ToJson(<<l, r.pid>>))
                 ELSE accepted' = accepted + 1 /\ UNCHANGED rejected
            /\ UNCHANGED <<vars, drifted>>
       [] r.op = "ev" /\ ~drifted ->
            IF r.id \in {"cached.map.hit!", "cached.map.miss!"} THEN
              \* the branch get() took, as the model predicted it
              /\ l' = l + 1
              /\ drifted' = ~((r.id = "cached.map.miss!") = (pc[r.t] = "cached.map.insert"))
              /\ UNCHANGED <<vars, accepted, rejected>>
            ELSE IF r.id \in {"cached.map.inserted!", "cached.stream.released!"} THEN Skip
            ELSE IF pc[r.t] = PointName(r.id) /\ ENABLED Release(r.t)
              THEN /\ Release(r.t) /\ l' = l + 1
                   /\ UNCHANGED <<drifted, accepted, rejected>>
              ELSE /\ drifted' = TRUE /\ l' = l + 1
                   /\ UNCHANGED <<vars, accepted, rejected>>
       [] OTHER -> Skip

TraceSpec == TraceInit /\ [][TraceNext]_tvars

TraceDone ==
  l = NRec + 1 => PrintT("TCDONE " \o ToJson(<<NRec, accepted, rejected>>))
=============================================================================
