CONSTANTS
  Threads <- T2
  Programs <- GenPrograms2
  ShardOf <- SameShard
  InsertOverwrites = FALSE
SPECIFICATION Spec
INVARIANT EmitSchedule
CHECK_DEADLOCK FALSE
