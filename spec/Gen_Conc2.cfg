CONSTANTS
  Threads <- T2
  Programs <- GenPrograms2
  ShardOf <- SameShard
  InsertOverwrites = FALSE
  MapSkipsHeldShard = FALSE
SPECIFICATION Spec
INVARIANT EmitSchedule
CHECK_DEADLOCK FALSE
