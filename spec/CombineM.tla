------------------------------- MODULE CombineM ------------------------------
(***************************************************************************)
(* Implementation-shaped model of stream_chunks_of_combined_source_map      *)
(* (src/helpers.rs): what a SourceMapSource with an inner source map        *)
(* streams.  The outer map is streamed by the splitters of SplitM; its      *)
(* announcements fill the index tables (source / name index -> global index *)
(* or -2 "not announced yet"); the announcement of the inner source streams *)
(* the inner map over the inner text and stores, per generated line, the    *)
(* inner segments with their chunks; every outer chunk is then looked up in *)
(* that table (the last inner segment at or before the column), its column  *)
(* advanced where the recorded content equals the skipped inner text, its   *)
(* name taken from the inner segment or confirmed against the content, and  *)
(* sources / names are announced the first time they are used.  The result  *)
(* is the event list the harness records: [t |-> "S", i, name, c],          *)
(* [t |-> "N", i, name], [t |-> "C", x, gl, gc, o].                         *)
(* MC_CombineM checks the design against Compose!ComposeOK (property C09,   *)
(* declarative).                                                            *)
(***************************************************************************)
EXTENDS Naturals, Integers, Sequences, FiniteSets, SequencesExt, FiniteSetsExt,
        Functions, Text, Vlq, SMap, Sem, Attr, EncM, SplitM

Get(f, k, d) == IF k \in DOMAIN f THEN f[k] ELSE d
ContentOpt(map, i) == IF i + 1 <= Len(map.contents) THEN <<map.contents[i + 1]>> ELSE <<>>
IdxOf(seq, x) == LET c == {i \in 1..Len(seq) : seq[i] = x} IN IF c = {} THEN -1 ELSE Min(c) - 1

SEv(i, name, c) == [t |-> "S", i |-> i, name |-> name, c |-> c]
NEv(i, name) == [t |-> "N", i |-> i, name |-> name]
CEv(x, gl, gc, o) == [t |-> "C", x |-> x, gl |-> gl, gc |-> gc, o |-> o]

SplitBy(text, segs, columns, final) ==
  IF columns THEN (IF final THEN SplitFinal(text, segs) ELSE SplitFull(text, segs))
  ELSE (IF final THEN SplitLinesFinal(text, segs) ELSE SplitLinesFull(text, segs))

(* WithIndices::substring(start, end) on a line (ASCII)                     *)
SubLine(line, start, end) ==
  LET e == IF end > Len(line) THEN Len(line) ELSE end
  IN IF start < e THEN SubSeq(line, start + 1, e) ELSE <<>>

(* global index of a source / name, announcing it when it is new            *)
WithSource(st, name, content) ==
  LET i == IdxOf(st.src, name)
  IN IF i >= 0 THEN <<st, i>>
     ELSE <<[st EXCEPT !.src = Append(@, name),
                       !.out = Append(@, SEv(Len(st.src), name, content))], Len(st.src)>>
WithName(st, name) ==
  LET i == IdxOf(st.names, name)
  IN IF i >= 0 THEN <<st, i>>
     ELSE <<[st EXCEPT !.names = Append(@, name),
                       !.out = Append(@, NEv(Len(st.names), name))], Len(st.names)>>

(* the table built while the inner map is streamed: per generated line the  *)
(* segments [gc, si, ol, oc, ni, x] in order                                *)
InnerLineData(innerText, inner, columns) ==
  LET cs == SplitBy(innerText, DecodeMappings(inner.m), columns, FALSE)
      nl == IF cs = <<>> THEN 0 ELSE Max({cs[i].gl : i \in 1..Len(cs)})
  IN [ln \in 1..nl |->
        LET on == SelectSeq(cs, LAMBDA c : c.gl = ln)
        IN [k \in 1..Len(on) |-> [gc |-> on[k].gc, si |-> on[k].s.si, ol |-> on[k].s.ol,
                                   oc |-> on[k].s.oc, ni |-> on[k].s.ni, x |-> on[k].x]]]

FindInner(data, line, col) ==
  IF line < 1 \/ line > Len(data) THEN 0
  ELSE LET c == {k \in 1..Len(data[line]) : data[line][k].gc <= col}
       IN IF c = {} THEN 0 ELSE Max(c)

(* announcements of the outer map: every source in order, then (column      *)
(* modes only) every name                                                   *)
Announce(t, columns) ==
  LET outer == t.map
      inner == t.inner[1]
      step(st, i) ==
        LET name == FileOf(outer, i)
            content == ContentOpt(outer, i)
        IN IF name = t.name
             THEN LET isrc == IF st.innerSrc # <<>> THEN st.innerSrc ELSE content
                      text == IF isrc = <<>> THEN <<>> ELSE isrc[1]
                      announced == Len(inner.sources)
                  IN [st EXCEPT !.innerIdx = i, !.innerSrc = isrc,
                                !.sim = PutF(@, i, -2),
                                \* (a second source of that name would append to the table;
                                \* the scopes have at most one)
                                !.data = InnerLineData(text, inner, columns),
                                !.iAnn = text # <<>>,
                                !.iNamesAnn = text # <<>> /\ columns,
                                !.iSim = IF text = <<>> THEN @
                                         ELSE [k \in 0..(announced - 1) |-> -2],
                                !.iNim = IF text = <<>> \/ ~columns THEN @
                                         ELSE [k \in 0..(Len(inner.names) - 1) |-> -2]]
             ELSE LET r == WithSource(st, name, content)
                  IN [r[1] EXCEPT !.sim = PutF(@, i, r[2])]
      st0 == [src |-> <<>>, names |-> <<>>, sim |-> EmptyF, nim |-> EmptyF,
              iSim |-> EmptyF, iNim |-> EmptyF, innerIdx |-> -2,
              innerSrc |-> t.osrc, data |-> <<>>, out |-> <<>>,
              iAnn |-> FALSE, iNamesAnn |-> FALSE, namesAnn |-> columns]
      st1 == FoldLeft(step, st0, [k \in 1..Len(outer.sources) |-> k - 1])
  IN IF columns THEN [st1 EXCEPT !.nim = [k \in 0..(Len(outer.names) - 1) |-> -2]] ELSE st1

(* one outer chunk                                                          *)
OnOuterChunk(t, final, st, c) ==
  LET outer == t.map
      inner == t.inner[1]
      si == c.s.si
      ol == IF si < 0 THEN -1 ELSE c.s.ol
      oc == IF si < 0 THEN -1 ELSE c.s.oc
      ni == c.s.ni
      xx == IF final THEN <<>> ELSE <<c.x>>
      unmapped(s) == [s EXCEPT !.out = Append(@, CEv(xx, c.gl, c.gc, <<>>))]
      \* pass the chunk through with the outer's own attribution
      pass(s) ==
        LET fsi == IF si < 0 THEN -1 ELSE Get(s.sim, si, -1)
        IN IF fsi < 0 THEN unmapped(s)
           ELSE LET fni0 == IF ni >= 0 THEN Get(s.nim, ni, -1) ELSE -1
                    r == IF fni0 = -2 THEN WithName(s, outer.names[ni + 1]) ELSE <<s, fni0>>
                    s2 == IF fni0 = -2 THEN [r[1] EXCEPT !.nim = PutF(@, ni, r[2])] ELSE s
                IN [s2 EXCEPT !.out = Append(@, CEv(xx, c.gl, c.gc, <<fsi, ol, oc, r[2]>>))]
      k == IF si >= 0 /\ si = st.innerIdx THEN FindInner(st.data, ol, oc) ELSE 0
  IN IF si < 0 \/ si # st.innerIdx THEN pass(st)
     ELSE IF k > 0 /\ st.data[ol][k].si >= 0
       THEN \* there is an inner mapping
         LET d == st.data[ol][k]
             loc == oc - d.gc
             hasLines == st.iAnn /\ d.si < Len(inner.sources) /\ ContentOpt(inner, d.si) # <<>>
             lines == IF hasLines THEN Lines(ContentOpt(inner, d.si)[1]) ELSE <<>>
             lineOK == d.ol >= 1 /\ d.ol <= Len(lines)
             origChunk == IF lineOK THEN SubLine(lines[d.ol], d.oc, d.oc + loc) ELSE <<>>
             adjust == loc > 0 /\ hasLines /\ lineOK /\ Len(origChunk) <= Len(d.x)
                       /\ SubSeq(d.x, 1, Len(origChunk)) = origChunk
             ioc == IF adjust THEN d.oc + loc ELSE d.oc
             ini == IF adjust THEN -1 ELSE d.ni
             \* the source
             g0 == Get(st.iSim, d.si, -2)
             rs == IF g0 = -2
                     THEN (IF st.iAnn /\ d.si < Len(inner.sources)
                             THEN WithSource(st, FileOf(inner, d.si), ContentOpt(inner, d.si))
                             ELSE WithSource(st, <<>>, <<>>))
                     ELSE <<st, g0>>
             s1 == IF g0 = -2 THEN [rs[1] EXCEPT !.iSim = PutF(@, d.si, rs[2])] ELSE st
             gsi == rs[2]
             \* the name
             viaInner == ini >= 0
             n0 == IF viaInner THEN Get(s1.iNim, ini, -2) ELSE -1
             rn1 == IF viaInner /\ n0 = -2
                      THEN (IF s1.iNamesAnn /\ ini < Len(inner.names)
                              THEN WithName(s1, inner.names[ini + 1]) ELSE <<s1, -1>>)
                      ELSE <<s1, n0>>
             s2 == IF viaInner /\ n0 = -2 THEN [rn1[1] EXCEPT !.iNim = PutF(@, ini, rn1[2])] ELSE s1
             \* no inner name, an outer one: confirmed against the content
             oname == IF ni >= 0 /\ ni < Len(outer.names) /\ s2.namesAnn
                        THEN outer.names[ni + 1] ELSE <<>>
             origName == IF lineOK THEN SubLine(lines[d.ol], ioc, ioc + Len(oname)) ELSE <<>>
             viaOuter == ~viaInner /\ ni >= 0 /\ hasLines /\ oname = origName
             m0 == IF viaOuter THEN Get(s2.nim, ni, -2) ELSE -1
             rn2 == IF viaOuter /\ m0 = -2
                      THEN (IF s2.namesAnn /\ ni < Len(outer.names)
                              THEN WithName(s2, outer.names[ni + 1]) ELSE <<s2, -1>>)
                      ELSE <<s2, m0>>
             s3 == IF viaOuter /\ m0 = -2 THEN [rn2[1] EXCEPT !.nim = PutF(@, ni, rn2[2])] ELSE s2
             fni == IF viaInner THEN rn1[2] ELSE IF viaOuter THEN rn2[2] ELSE -1
         IN [s3 EXCEPT !.out = Append(@, CEv(xx, c.gl, c.gc,
                                            IF gsi >= 0 THEN <<gsi, d.ol, ioc, fni>> ELSE <<>>))]
     ELSE IF t.remove THEN unmapped(st)
     ELSE \* the inner source itself is reported.  The code looks its name up in the
          \* table of announced sources but files the new entry under the generated
          \* TEXT (a shadowed variable): an inner map that also names this file
          \* announces it a second time
       LET g == Get(st.sim, si, -1)
           found == IdxOf(st.src, t.name)
           r == IF g # -2 THEN <<st, g>>
                ELSE IF found >= 0 THEN <<st, found>>
                ELSE <<[st EXCEPT !.src = Append(@, t.b),
                                  !.out = Append(@, SEv(Len(st.src), t.name, st.innerSrc))], Len(st.src)>>
           s1 == IF g = -2 THEN [r[1] EXCEPT !.sim = PutF(@, si, r[2])] ELSE st
       IN pass(s1)

CombineStream(t, columns, final) ==
  LET chunks == SplitBy(t.b, DecodeMappings(t.map.m), columns, final)
      fin == FoldLeft(LAMBDA s, c : OnOuterChunk(t, final, s, c), Announce(t, columns), chunks)
  IN IF t.b = <<>> THEN [ev |-> <<>>, end |-> <<1, 0>>]
     ELSE [ev |-> fin.out, end |-> EndPos(t.b)]
=============================================================================
