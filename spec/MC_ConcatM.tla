------------------------------ MODULE MC_ConcatM ----------------------------
EXTENDS ConcatM, TLC
CONSTANT ForwardUnmapped

cA == 97
(* children: a text cut into chunks; every chunk start is an event (as a     *)
(* ReplaceSource or a nested ConcatSource reports them), or no event at all  *)
(* for unmapped text (as a RawSource); the empty child                       *)
Texts == {<<>>, <<cA>>, <<cA, cA>>, <<cA, NL>>, <<NL, cA>>, <<cA, NL, cA>>}
Attrs == {<<-1, 0, 0, -1>>, <<0, 1, 0, -1>>, <<1, 2, 3, 0>>}
MustCut(t) == {i \in 1..(Len(t) - 1) : t[i] = NL}
Cuts(t) == {C \in SUBSET (1..(Len(t) - 1)) : MustCut(t) \subseteq C}
EventChildren(t) ==
  IF t = <<>> THEN {[text |-> <<>>, ev |-> <<>>, evn |-> <<>>, end |-> <<1, 0>>]} ELSE
  UNION {
    LET cutSeq == SetToSortSeq(C \cup {Len(t)}, <)
        n == Len(cutSeq)
        pt == PosTable(t)
        start(k) == IF k = 1 THEN 1 ELSE cutSeq[k - 1] + 1
        piece(k) == SubSeq(t, start(k), cutSeq[k])
    IN {[text |-> t,
         ev |-> [k \in 1..n |-> [gl |-> pt[start(k)][1], gc |-> pt[start(k)][2], si |-> f[k][1],
                                 ol |-> f[k][2], oc |-> f[k][3], ni |-> f[k][4]]],
         evn |-> [k \in 1..n |-> [gl |-> pt[start(k)][1], gc |-> pt[start(k)][2], si |-> f[k][1],
                                  ol |-> f[k][2], oc |-> f[k][3], ni |-> f[k][4], x |-> piece(k)]],
         end |-> EndPos(t)] : f \in [1..n -> Attrs]}
    : C \in Cuts(t)}
RawLines(t) ==
  LET ls == Lines(t)
  IN [l \in 1..Len(ls) |-> [gl |-> l, gc |-> 0, si |-> -1, ol |-> 0, oc |-> 0, ni |-> -1, x |-> ls[l]]]
RawChildren == {[text |-> t, ev |-> <<>>, evn |-> RawLines(t), end |-> EndPos(t)] : t \in Texts}
Children == RawChildren \cup UNION {EventChildren(t) : t \in Texts}
SlimChildren ==
  RawChildren \cup UNION {EventChildren(t) : t \in {<<cA>>, <<cA, NL>>, <<NL, cA>>}}

VARIABLE kids
Init == \/ kids \in {<<a, b>> : a \in Children, b \in Children}
        \/ kids \in {<<a, b, c>> : a \in SlimChildren, b \in RawChildren, c \in SlimChildren}
Next == UNCHANGED kids
Spec == Init /\ [][Next]_kids
DesignOK == ConcatOK(ForwardUnmapped, kids) /\ ConcatNormalOK(kids)
=============================================================================
