------------------------------- MODULE MC_LeafM ------------------------------
EXTENDS LeafM, Sem, TLC
CONSTANT MaxLen

Sigma == {97, 59, 123, 32, 13, NL}
Texts == UNION {[1..n -> Sigma] : n \in 0..MaxLen}

VARIABLE t
Init == t \in Texts
Next == UNCHANGED t
Spec == Init /\ [][Next]_t

TextOfEv(evs) == Concat([i \in 1..Len(evs) |-> IF evs[i].x = <<>> THEN <<>> ELSE evs[i].x[1]])
Offs(evs) ==
  FoldLeft(LAMBDA acc, e : <<Append(acc[1], acc[2]), acc[2] + (IF e.x = <<>> THEN 0 ELSE Len(e.x[1]))>>,
           <<<<>>, 0>>, evs)[1]

NormalOK(s) ==
  LET pt == PosTable(t)
      off == Offs(s.ev)
  IN /\ TextOfEv(s.ev) = t
     /\ s.end = EndPos(t)
     /\ \A i \in 1..Len(s.ev) : s.ev[i].x # <<>> /\ s.ev[i].x[1] # <<>>
                                 /\ <<s.ev[i].gl, s.ev[i].gc>> = pt[off[i] + 1]

DesignOK ==
  LET cn == OrigStream(t, TRUE, FALSE)
      cf == OrigStream(t, TRUE, TRUE)
      ln == OrigStream(t, FALSE, FALSE)
      lf == OrigStream(t, FALSE, TRUE)
      rn == RawStream(t, FALSE)
      rf == RawStream(t, TRUE)
      off == Offs(cn.ev)
      strip(evs) == [i \in 1..Len(evs) |-> [evs[i] EXCEPT !.x = <<>>]]
      mapped(evs) == SelectSeq(evs, LAMBDA e : e.o # <<>>)
  IN /\ NormalOK(cn) /\ NormalOK(ln) /\ NormalOK(rn)
     \* a chunk is mapped to its own position unless it is a lone line break
     /\ \A i \in 1..Len(cn.ev) :
          cn.ev[i].o = IF cn.ev[i].x[1] = <<NL>> THEN <<>>
                       ELSE Self(cn.ev[i].gl, cn.ev[i].gc)
     \* chunks begin exactly at the statement starts of the documented rule
     /\ {off[i] + 1 : i \in {i \in 1..Len(cn.ev) : cn.ev[i].o # <<>>}} = StatementStarts(t)
     \* the final-source streams: same events, no text, unmapped ones dropped
     /\ cf.ev = strip(mapped(cn.ev)) /\ cf.end = cn.end
     /\ lf.ev = strip(ln.ev) /\ lf.end = ln.end
     /\ rf.ev = <<>> /\ rf.end = rn.end
     \* lines mode: one mapped chunk per line, raw: one unmapped chunk per line
     /\ [i \in 1..Len(ln.ev) |-> ln.ev[i].x[1]] = Lines(t)
     /\ \A i \in 1..Len(ln.ev) : ln.ev[i].o = Self(i, 0)
     /\ [i \in 1..Len(rn.ev) |-> rn.ev[i].x[1]] = Lines(t)
     /\ \A i \in 1..Len(rn.ev) : rn.ev[i].o = <<>>
=============================================================================
