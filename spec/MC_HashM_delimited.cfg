CONSTANT Delimit = TRUE
SPECIFICATION Spec
INVARIANT Separates
CHECK_DEADLOCK FALSE
ALIAS Alias
