-------------------------------- MODULE Rope --------------------------------
(***************************************************************************)
(* A rope is the flat string formed by concatenating its pieces; every      *)
(* observer of the public Rope API is defined here on that flat string      *)
(* (property C16).  Rope expressions:                                       *)
(*   <<"new">> | <<"from", p>> | <<"from_iter", <<p...>>>> | <<"add", e, p>> *)
(*   | <<"append", e, e>> | <<"slice", e, a, b>> | <<"line", e, k>>          *)
(* p indexes (0-based) the program's piece table.                           *)
(***************************************************************************)
EXTENDS Naturals, Integers, Sequences, FiniteSets, SequencesExt,
        FiniteSetsExt, Text

Invalid == <<-1>>

(* lines(): split after each line break; a trailing line break (and the     *)
(* empty text) is followed by one empty line                                *)
RopeLines(t) ==
  Lines(t) \o (IF t = <<>> \/ t[Len(t)] = NL THEN <<<<>>>> ELSE <<>>)

(* get_byte_slice(a..b) is defined exactly for in-range ranges on character *)
(* boundaries                                                               *)
SliceOK(t, a, b) ==
  a <= b /\ b <= Len(t) /\ a \in Boundaries(t) /\ b \in Boundaries(t)

RECURSIVE FlatOf(_, _)
FlatOf(e, pieces) ==
  CASE e[1] = "new" -> <<>>
    [] e[1] = "from" -> pieces[e[2] + 1]
    [] e[1] = "from_iter" -> Concat([i \in 1..Len(e[2]) |-> pieces[e[2][i] + 1]])
    [] e[1] = "add" ->
         LET x == FlatOf(e[2], pieces)
         IN IF x = Invalid THEN Invalid ELSE x \o pieces[e[3] + 1]
    [] e[1] = "append" ->
         LET x == FlatOf(e[2], pieces)
             y == FlatOf(e[3], pieces)
         IN IF x = Invalid \/ y = Invalid THEN Invalid ELSE x \o y
    [] e[1] = "slice" ->
         LET x == FlatOf(e[2], pieces)
         IN IF x = Invalid \/ ~SliceOK(x, e[3], e[4]) THEN Invalid
            ELSE SubSeq(x, e[3] + 1, e[4])
    [] e[1] = "line" ->
         LET x == FlatOf(e[2], pieces)
         IN IF x = Invalid THEN Invalid
            ELSE LET ls == RopeLines(x)
                 IN IF e[3] + 1 <= Len(ls) THEN ls[e[3] + 1] ELSE Invalid

(* UTF-8: the characters of a (valid) text as <<byte offset, code point>>   *)
CodePoint(t, i, n) ==
  CASE n = 1 -> t[i]
    [] n = 2 -> (t[i] - 192) * 64 + (t[i + 1] - 128)
    [] n = 3 -> (t[i] - 224) * 4096 + (t[i + 1] - 128) * 64 + (t[i + 2] - 128)
    [] OTHER -> (t[i] - 240) * 262144 + (t[i + 1] - 128) * 4096
                  + (t[i + 2] - 128) * 64 + (t[i + 3] - 128)

RECURSIVE CharsFrom(_, _)
CharsFrom(t, i) ==
  IF i > Len(t) THEN <<>>
  ELSE LET n == Walk(t, i)[2]
       IN <<<<i - 1, CodePoint(t, i, n)>>>> \o CharsFrom(t, i + n)

CharIndices(t) == CharsFrom(t, 1)

Utf8Of(cp) ==
  IF cp < 128 THEN <<cp>>
  ELSE IF cp < 2048 THEN <<192 + (cp \div 64), 128 + (cp % 64)>>
  ELSE IF cp < 65536
    THEN <<224 + (cp \div 4096), 128 + ((cp \div 64) % 64), 128 + (cp % 64)>>
  ELSE <<240 + (cp \div 262144), 128 + ((cp \div 4096) % 64),
         128 + ((cp \div 64) % 64), 128 + (cp % 64)>>

EndsWithChar(t, cp) == IsSuffix(Utf8Of(cp), t)
=============================================================================
