------------------------------- MODULE SplitM -------------------------------
(***************************************************************************)
(* Implementation-shaped model of the map-driven splitters                  *)
(* stream_chunks_of_source_map_{full, final, lines_full, lines_final}       *)
(* (src/helpers.rs); for the first: the state it keeps                      *)
(* between segments (current generated line / column, the active mapping)   *)
(* and one step per segment, branch for branch, plus the final sentinel.    *)
(* It is what SourceMapSource streams with columns and what a CachedSource  *)
(* replays from its cached map.                                             *)
(*   chunk = [x, gl, gc, s]  with s a segment record (s.si = -1: unmapped)  *)
(* MC_SplitM checks this design against the declarative requirements        *)
(* (reassembly, true positions, per-position resolution through the map),   *)
(* and the CachedSource design built on it and on EncM: filling the cache   *)
(* from any well-formed chunk stream and replaying it gives every position  *)
(* the same attribution (property C10 at design level).  Trace validation   *)
(* compares the real stream of a SourceMapSource with this model (reported  *)
(* as model conformance only).                                              *)
(***************************************************************************)
EXTENDS Naturals, Integers, Sequences, FiniteSets, SequencesExt,
        FiniteSetsExt, Text, Vlq, SMap, EncM

NoSeg == [gl |-> 0, gc |-> 0, si |-> -1, ol |-> 0, oc |-> 0, ni |-> -1]

MinI(a, b) == IF a < b THEN a ELSE b

(* WithIndices::substring on an ASCII line; end = -1 stands for usize::MAX  *)
Sub(line, a, b) ==
  LET e == IF b < 0 THEN Len(line) ELSE MinI(b, Len(line))
  IN IF a < e THEN SubSeq(line, a + 1, e) ELSE <<>>

Chunk(x, gl, gc, s) == [x |-> x, gl |-> gl, gc |-> gc, s |-> s]

(* emit whole unmapped lines from `line` up to (not including) `upto`       *)
RECURSIVE WholeLines(_, _, _)
WholeLines(lines, line, upto) ==
  IF line >= upto THEN <<>>
  ELSE (IF line <= Len(lines) THEN <<Chunk(lines[line], line, 0, NoSeg)>> ELSE <<>>)
         \o WholeLines(lines, line + 1, upto)

SplitInit == [line |-> 1, col |-> 0, active |-> FALSE, act |-> NoSeg, out |-> <<>>]

OnMapping(lines, finalLine, finalCol, st, m) ==
  IF m.gl < st.line \/ (m.gl = st.line /\ m.gc < st.col) THEN st   \* goes backwards: ignored
  ELSE
    \* 1. close the active mapping
    LET closes == st.active /\ st.line <= Len(lines)
        nextLine == m.gl # st.line
        c1 == IF ~closes THEN <<>>
              ELSE IF nextLine THEN Sub(lines[st.line], st.col, -1)
              ELSE Sub(lines[st.line], st.col, m.gc)
        out1 == IF c1 # <<>> THEN Append(st.out, Chunk(c1, st.line, st.col, st.act)) ELSE st.out
        line1 == IF closes /\ nextLine THEN st.line + 1 ELSE st.line
        col1 == IF closes THEN (IF nextLine THEN 0 ELSE m.gc) ELSE st.col
        \* 2. unmapped rest of a line that was left in the middle
        rest == m.gl > line1 /\ col1 > 0
        out2 == IF rest /\ line1 <= Len(lines)
                  THEN Append(out1, Chunk(Sub(lines[line1], col1, -1), line1, col1, NoSeg))
                  ELSE out1
        line2 == IF rest THEN line1 + 1 ELSE line1
        col2 == IF rest THEN 0 ELSE col1
        \* 3. whole unmapped lines
        out3 == out2 \o WholeLines(lines, line2, m.gl)
        line3 == IF m.gl > line2 THEN m.gl ELSE line2
        \* 4. unmapped text before the segment
        gap == m.gc > col2
        out4 == IF gap /\ line3 <= Len(lines)
                  THEN Append(out3, Chunk(Sub(lines[line3], col2, m.gc), line3, col2, NoSeg))
                  ELSE out3
        col4 == IF gap THEN m.gc ELSE col2
        \* 5. the segment becomes active if it lies before the end
        activates == m.si >= 0 /\ (m.gl < finalLine \/ (m.gl = finalLine /\ m.gc < finalCol))
    IN [line |-> line3, col |-> col4, active |-> activates,
        act |-> IF activates THEN m ELSE st.act, out |-> out4]

SplitFull(text, segs) ==
  LET lines == Lines(text)
      end == EndPos(text)
      step(st, m) == OnMapping(lines, end[1], end[2], st, m)
      sentinel == [gl |-> end[1], gc |-> end[2], si |-> -1, ol |-> 0, oc |-> 0, ni |-> -1]
  IN IF lines = <<>> THEN <<>>
     ELSE step(FoldLeft(step, SplitInit, segs), sentinel).out

(* The other three modes (src/helpers.rs): text-less final-source streams    *)
(* and the line-granular ones.  Events are chunks with x = <<>>.             *)
UnmappedAt(gl, gc) == [gl |-> gl, gc |-> gc, si |-> -1, ol |-> 0, oc |-> 0, ni |-> -1]
NoName(m) == [m EXCEPT !.ni = -1]

(* stream_chunks_of_source_map_final: mapped segments before the end, and   *)
(* unmapped ones on a line that already carries a mapped one                *)
SplitFinal(text, segs) ==
  LET end == EndPos(text)
      step(st, m) ==
        IF m.gl >= end[1] /\ (m.gc >= end[2] \/ m.gl > end[1]) THEN st
        ELSE IF m.si >= 0
          THEN [activeLine |-> m.gl, out |-> Append(st.out, Chunk(<<>>, m.gl, m.gc, m))]
        ELSE IF st.activeLine = m.gl
          THEN [st EXCEPT !.out = Append(@, Chunk(<<>>, m.gl, m.gc, UnmappedAt(m.gl, m.gc)))]
        ELSE st
  IN IF end = <<1, 0>> THEN <<>>
     ELSE FoldLeft(step, [activeLine |-> 0, out |-> <<>>], segs).out

(* stream_chunks_of_source_map_lines_final: the first mapped segment of     *)
(* every line up to the last line that has text, at column 0, without name  *)
SplitLinesFinal(text, segs) ==
  LET end == EndPos(text)
      finalLine == IF end[2] = 0 THEN end[1] - 1 ELSE end[1]
      step(st, m) ==
        IF m.si >= 0 /\ st.cur <= m.gl /\ m.gl <= finalLine
          THEN [cur |-> m.gl + 1, out |-> Append(st.out, Chunk(<<>>, m.gl, 0, NoName(m)))]
          ELSE st
  IN IF end = <<1, 0>> THEN <<>>
     ELSE FoldLeft(step, [cur |-> 1, out |-> <<>>], segs).out

(* stream_chunks_of_source_map_lines_full: whole lines, each with the first *)
(* mapped segment of its line                                               *)
SplitLinesFull(text, segs) ==
  LET lines == Lines(text)
      step(st, m) ==
        IF m.si < 0 \/ m.gl < st.cur \/ m.gl > Len(lines) THEN st
        ELSE [cur |-> m.gl + 1,
              out |-> (st.out \o WholeLines(lines, st.cur, m.gl))
                        \o <<Chunk(lines[m.gl], m.gl, 0, NoName(m))>>]
      fin == FoldLeft(step, [cur |-> 1, out |-> <<>>], segs)
  IN IF lines = <<>> THEN <<>>
     ELSE fin.out \o WholeLines(lines, fin.cur, Len(lines) + 1)

-----------------------------------------------------------------------------
(* requirements                                                             *)
ChunksText(cs) == Concat([i \in 1..Len(cs) |-> cs[i].x])
RawOf(s) == IF s.si < 0 THEN <<-1, 0, 0, -1>> ELSE <<s.si, s.ol, s.oc, s.ni>>
ByteRaw(cs) == Concat([j \in 1..Len(cs) |-> [i \in 1..Len(cs[j].x) |-> RawOf(cs[j].s)]])

PositionsTrue(cs) ==
  LET pt == PosTable(ChunksText(cs))
      offs == FoldLeft(LAMBDA acc, c : <<Append(acc[1], acc[2]), acc[2] + Len(c.x)>>,
                       <<<<>>, 0>>, cs)[1]
  IN \* (an empty chunk - the splitter emits one after a zero-width segment
     \* at the end of a line - has no text whose position could be wrong)
     \A j \in 1..Len(cs) : cs[j].x = <<>> \/ <<cs[j].gl, cs[j].gc>> = pt[offs[j] + 1]

ResolveRaw(segs, line, col) ==
  LET i == CoverIdx(segs, line, col) IN IF i = 0 THEN <<-1, 0, 0, -1>> ELSE RawOf(segs[i])

SplitOK(text, segs) ==
  LET cs == SplitFull(text, segs)
      pt == PosTable(text)
  IN /\ ChunksText(cs) = text
     /\ PositionsTrue(cs)
     /\ ByteRaw(cs) = [i \in 1..Len(text) |-> ResolveRaw(segs, pt[i][1], pt[i][2])]

(* the final-source events resolve every position of the text as the map    *)
(* does                                                                     *)
SplitFinalOK(text, segs) ==
  LET ev == SplitFinal(text, segs)
      asSegs == [i \in 1..Len(ev) |-> [ev[i].s EXCEPT !.gl = ev[i].gl, !.gc = ev[i].gc]]
      pt == PosTable(text)
  IN /\ \A i \in 1..Len(ev) : ev[i].x = <<>>
     /\ \A i \in 1..Len(text) :
          ResolveRaw(asSegs, pt[i][1], pt[i][2]) = ResolveRaw(segs, pt[i][1], pt[i][2])

FirstMappedRaw(segs, ln) ==
  LET i == FirstMappedIdx(segs, ln)
  IN IF i = 0 THEN <<-1, 0, 0, -1>> ELSE RawOf(NoName(segs[i]))

(* line-granular streams: one chunk per line of the text, carrying the      *)
(* first mapped segment of that line                                        *)
SplitLinesOK(text, segs) ==
  LET full == SplitLinesFull(text, segs)
      fin == SplitLinesFinal(text, segs)
      lines == Lines(text)
  IN /\ [i \in 1..Len(full) |-> full[i].x] = lines
     /\ \A i \in 1..Len(full) :
          /\ <<full[i].gl, full[i].gc>> = <<i, 0>>
          /\ RawOf(full[i].s) = FirstMappedRaw(segs, i)
     \* the final-source variant: the mapped ones of these, without text
     /\ LET mapped == SelectSeq(full, LAMBDA c : c.s.si >= 0)
        IN /\ Len(fin) = Len(mapped)
           /\ \A i \in 1..Len(fin) :
                /\ fin[i].x = <<>> /\ <<fin[i].gl, fin[i].gc>> = <<mapped[i].gl, 0>>
                /\ RawOf(fin[i].s) = RawOf(mapped[i].s)

(* CachedSource: fill from a chunk stream (EncM), replay through SplitFull  *)
SegOfChunk(c) == [c.s EXCEPT !.gl = c.gl, !.gc = c.gc]
CachedReplay(cs) ==
  SplitFull(ChunksText(cs), DecodeMappings(EncodeFullM([j \in 1..Len(cs) |-> SegOfChunk(cs[j])])))
CachedTransparent(cs) ==
  LET re == CachedReplay(cs)
  IN /\ ChunksText(re) = ChunksText(cs)
     /\ PositionsTrue(re)
     /\ ByteRaw(re) = ByteRaw(cs)
=============================================================================
