------------------------------- MODULE SplitM -------------------------------
(***************************************************************************)
(* Implementation-shaped model of the map-driven splitter                   *)
(* stream_chunks_of_source_map_full (src/helpers.rs): the state it keeps    *)
(* between segments (current generated line / column, the active mapping)   *)
(* and one step per segment, branch for branch, plus the final sentinel.    *)
(* It is what SourceMapSource streams with columns and what a CachedSource  *)
(* replays from its cached map.                                             *)
(*   chunk = [x, gl, gc, s]  with s a segment record (s.si = -1: unmapped)  *)
(* MC_SplitM checks this design against the declarative requirements        *)
(* (reassembly, true positions, per-position resolution through the map),   *)
(* and the CachedSource design built on it and on EncM: filling the cache   *)
(* from any well-formed chunk stream and replaying it gives every position  *)
(* the same attribution (property C10 at design level).  Trace validation   *)
(* compares the real stream of a SourceMapSource with this model (reported  *)
(* as model conformance only).                                              *)
(***************************************************************************)
EXTENDS Naturals, Integers, Sequences, FiniteSets, SequencesExt,
        FiniteSetsExt, Text, Vlq, SMap, EncM

NoSeg == [gl |-> 0, gc |-> 0, si |-> -1, ol |-> 0, oc |-> 0, ni |-> -1]

MinI(a, b) == IF a < b THEN a ELSE b

(* WithIndices::substring on an ASCII line; end = -1 stands for usize::MAX  *)
Sub(line, a, b) ==
  LET e == IF b < 0 THEN Len(line) ELSE MinI(b, Len(line))
  IN IF a < e THEN SubSeq(line, a + 1, e) ELSE <<>>

Chunk(x, gl, gc, s) == [x |-> x, gl |-> gl, gc |-> gc, s |-> s]

(* emit whole unmapped lines from `line` up to (not including) `upto`       *)
RECURSIVE WholeLines(_, _, _)
WholeLines(lines, line, upto) ==
  IF line >= upto THEN <<>>
  ELSE (IF line <= Len(lines) THEN <<Chunk(lines[line], line, 0, NoSeg)>> ELSE <<>>)
         \o WholeLines(lines, line + 1, upto)

SplitInit == [line |-> 1, col |-> 0, active |-> FALSE, act |-> NoSeg, out |-> <<>>]

OnMapping(lines, finalLine, finalCol, st, m) ==
  IF m.gl < st.line \/ (m.gl = st.line /\ m.gc < st.col) THEN st   \* goes backwards: ignored
  ELSE
    \* 1. close the active mapping
    LET closes == st.active /\ st.line <= Len(lines)
        nextLine == m.gl # st.line
        c1 == IF ~closes THEN <<>>
              ELSE IF nextLine THEN Sub(lines[st.line], st.col, -1)
              ELSE Sub(lines[st.line], st.col, m.gc)
        out1 == IF c1 # <<>> THEN Append(st.out, Chunk(c1, st.line, st.col, st.act)) ELSE st.out
        line1 == IF closes /\ nextLine THEN st.line + 1 ELSE st.line
        col1 == IF closes THEN (IF nextLine THEN 0 ELSE m.gc) ELSE st.col
        \* 2. unmapped rest of a line that was left in the middle
        rest == m.gl > line1 /\ col1 > 0
        out2 == IF rest /\ line1 <= Len(lines)
                  THEN Append(out1, Chunk(Sub(lines[line1], col1, -1), line1, col1, NoSeg))
                  ELSE out1
        line2 == IF rest THEN line1 + 1 ELSE line1
        col2 == IF rest THEN 0 ELSE col1
        \* 3. whole unmapped lines
        out3 == out2 \o WholeLines(lines, line2, m.gl)
        line3 == IF m.gl > line2 THEN m.gl ELSE line2
        \* 4. unmapped text before the segment
        gap == m.gc > col2
        out4 == IF gap /\ line3 <= Len(lines)
                  THEN Append(out3, Chunk(Sub(lines[line3], col2, m.gc), line3, col2, NoSeg))
                  ELSE out3
        col4 == IF gap THEN m.gc ELSE col2
        \* 5. the segment becomes active if it lies before the end
        activates == m.si >= 0 /\ (m.gl < finalLine \/ (m.gl = finalLine /\ m.gc < finalCol))
    IN [line |-> line3, col |-> col4, active |-> activates,
        act |-> IF activates THEN m ELSE st.act, out |-> out4]

SplitFull(text, segs) ==
  LET lines == Lines(text)
      end == EndPos(text)
      step(st, m) == OnMapping(lines, end[1], end[2], st, m)
      sentinel == [gl |-> end[1], gc |-> end[2], si |-> -1, ol |-> 0, oc |-> 0, ni |-> -1]
  IN IF lines = <<>> THEN <<>>
     ELSE step(FoldLeft(step, SplitInit, segs), sentinel).out

-----------------------------------------------------------------------------
(* requirements                                                             *)
ChunksText(cs) == Concat([i \in 1..Len(cs) |-> cs[i].x])
RawOf(s) == IF s.si < 0 THEN <<-1, 0, 0, -1>> ELSE <<s.si, s.ol, s.oc, s.ni>>
ByteRaw(cs) == Concat([j \in 1..Len(cs) |-> [i \in 1..Len(cs[j].x) |-> RawOf(cs[j].s)]])

PositionsTrue(cs) ==
  LET pt == PosTable(ChunksText(cs))
      offs == FoldLeft(LAMBDA acc, c : <<Append(acc[1], acc[2]), acc[2] + Len(c.x)>>,
                       <<<<>>, 0>>, cs)[1]
  IN \* (an empty chunk - the splitter emits one after a zero-width segment
     \* at the end of a line - has no text whose position could be wrong)
     \A j \in 1..Len(cs) : cs[j].x = <<>> \/ <<cs[j].gl, cs[j].gc>> = pt[offs[j] + 1]

ResolveRaw(segs, line, col) ==
  LET i == CoverIdx(segs, line, col) IN IF i = 0 THEN <<-1, 0, 0, -1>> ELSE RawOf(segs[i])

SplitOK(text, segs) ==
  LET cs == SplitFull(text, segs)
      pt == PosTable(text)
  IN /\ ChunksText(cs) = text
     /\ PositionsTrue(cs)
     /\ ByteRaw(cs) = [i \in 1..Len(text) |-> ResolveRaw(segs, pt[i][1], pt[i][2])]

(* CachedSource: fill from a chunk stream (EncM), replay through SplitFull  *)
SegOfChunk(c) == [c.s EXCEPT !.gl = c.gl, !.gc = c.gc]
CachedReplay(cs) ==
  SplitFull(ChunksText(cs), DecodeMappings(EncodeFullM([j \in 1..Len(cs) |-> SegOfChunk(cs[j])])))
CachedTransparent(cs) ==
  LET re == CachedReplay(cs)
  IN /\ ChunksText(re) = ChunksText(cs)
     /\ PositionsTrue(re)
     /\ ByteRaw(re) = ByteRaw(cs)
=============================================================================
