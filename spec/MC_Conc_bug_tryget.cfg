CONSTANTS
  Threads <- T2
  Programs <- Programs2x2
  ShardOf <- SameShard
  InsertOverwrites = FALSE
  MapSkipsHeldShard = TRUE
SPECIFICATION FairSpec
INVARIANTS NoMonitorFired CloneOK NoDeadlock
PROPERTIES WriteOnce Termination
VIEW ViewNoHist
CHECK_DEADLOCK FALSE
