-------------------------------- MODULE Preds -------------------------------
(***************************************************************************)
(* The object machine as seen by trace validation: its state, how each      *)
(* recorded call changes it (NextState), which property predicates apply    *)
(* to a record (Checks) and what they say (Holds).  A check is a pair       *)
(* <<property id, predicate name>>.                                         *)
(***************************************************************************)
EXTENDS Naturals, Integers, Sequences, FiniteSets, SequencesExt,
        FiniteSetsExt, Functions, TLC, Text, Vlq, VlqW, SMap, Sem, Attr, Compose, Rope, RopeM, ReplReq, EncM, DecM, SplitM, ReplaceM, ConcatM, HashM, LeafM, CombineM, TreeM, TreeC

NREG == 16
EmptyHeap == [i \in 0..(NREG - 1) |-> Nil]

NoObs == [x \in {} |-> 0]
InitState == [heap |-> EmptyHeap, obs |-> NoObs,
              ref |-> NoObs,        \* register of a CachedSource -> register holding the wrapped tree
              cache |-> NoObs,      \* cache id -> {<<columns, final, "map" | "stream">>}
              eqs |-> NoObs,        \* <<a, b>> -> last answer of a == b
              stored |-> NoObs,     \* <<cache object, key>> -> identity of the cached map
              nb |-> 0,             \* trees built so far (identities of CachedSource nodes)
              tc |-> NoObs,         \* TreeC: <<cache id, columns, final>> -> what that cache stores
              cm |-> NoObs,         \* concurrent programs: <<twin register, columns>> -> first map() answer on that cache
              inconc |-> FALSE,     \* inside a concurrent program
              ix |-> NoObs]         \* IndexM: register holding a ReplaceSource -> [idx, flag] of its lazily sorted index

Put(f, k, v) == [x \in DOMAIN f \cup {k} |-> IF x = k THEN v ELSE f[x]]

(* key under which the answer of an observer call is remembered             *)
ObsKey(r) ==
  CASE r.op = "source" -> <<r.r, "source">>
    [] r.op = "map" -> <<r.r, "map", r.columns>>
    [] r.op = "stream" -> <<r.r, "stream", r.columns, r.final>>
    [] r.op = "hash" /\ r.h # "twox" -> <<r.r, "hash", r.h>>
    [] OTHER -> <<r.r, r.op>>

Ok(r) == r.oc = "ok"

-----------------------------------------------------------------------------
(* The cache of a CachedSource, as far as direct calls on it determine it:   *)
(* map(c) on a cold key fills it "by map", streaming fills it "by stream";  *)
(* clones share the cache id.                                               *)
CacheKeyOf(r) ==
  IF r.op = "map" THEN <<r.columns, FALSE>> ELSE <<r.columns, r.final>>
CacheFilled(cache, t, key) ==
  /\ t.k = "cached" /\ t.cid \in DOMAIN cache
  /\ \E e \in cache[t.cid] : <<e[1], e[2]>> = key
CacheHow(cache, t, key) ==
  IF ~CacheFilled(cache, t, key) THEN "cold"
  ELSE (CHOOSE e \in cache[t.cid] : <<e[1], e[2]>> = key)[3]
CacheAfter(cache, r, t) ==
  IF r.op \notin {"map", "stream"} \/ t.k # "cached" \/ CacheFilled(cache, t, CacheKeyOf(r))
    THEN cache
  ELSE LET key == CacheKeyOf(r)
           e == <<key[1], key[2], IF r.op = "map" THEN "map" ELSE "stream">>
       IN [x \in DOMAIN cache \cup {t.cid} |->
             IF x = t.cid THEN (IF x \in DOMAIN cache THEN cache[x] ELSE {}) \cup {e}
             ELSE cache[x]]

(* events that report the identity of the map stored for an option set      *)
ReportsStored(r) ==
  r.id \in {"cached.map.hit!", "cached.map.inserted!", "cached.stream.occupied",
            "cached.stream.fill"}

(* actions                                                                  *)
Forget(obs, reg) == [k \in {x \in DOMAIN obs : x[1] # reg} |-> obs[k]]
ForgetEq(eqs, reg) == [k \in {x \in DOMAIN eqs : x[1] # reg /\ x[2] # reg} |-> eqs[k]]

(* the cache-aware tree model follows a call: sequential records on trees    *)
(* with a CachedSource somewhere, inside the models' domain                  *)
TreeCApplies(r, st) ==
  /\ r.op \in {"map", "stream"} /\ "tid" \notin DOMAIN r /\ "after" \notin DOMAIN r
  /\ LET t == st.heap[r.r]
     IN "cached" \in Kinds(t) /\ TreeCDomain(t) /\ SharedNamesAgreeInTree(t)

(* The lazily sorted index of the ReplaceSource a register holds (IndexM): *)
(* pushes clear the flag, every observer that reads through the index sorts *)
(* first when the flag is clear, clones copy; anything else - a panic, a    *)
(* concurrent program, a register built from another register - and the     *)
(* register is no longer followed.                                          *)
IxDrop(f, k) == [x \in DOMAIN f \ {k} |-> f[x]]
IxSorts(r) == r.op \in {"source", "rope", "buffer", "size", "writer", "stream", "map", "hash", "debug"}
IxReg(r) == IF r.op \in {"build", "clone"} THEN r.dst ELSE r.r
IxNext(r, st) ==
  CASE r.op = "begin" -> NoObs
    [] "tid" \in DOMAIN r -> NoObs
    [] r.op = "build" ->
         IF Ok(r) /\ r.tree.k = "replace"
           THEN Put(st.ix, r.dst, [idx |-> <<>>, flag |-> r.tree.repls = <<>>])
           ELSE IxDrop(st.ix, r.dst)
    [] r.op = "clone" ->
         IF Ok(r) /\ r.src \in DOMAIN st.ix THEN Put(st.ix, r.dst, st.ix[r.src])
         ELSE IxDrop(st.ix, r.dst)
    [] r.op = "replace" ->
         IF r.r \notin DOMAIN st.ix THEN st.ix
         ELSE IF Ok(r) THEN Put(st.ix, r.r, [st.ix[r.r] EXCEPT !.flag = FALSE])
         ELSE IxDrop(st.ix, r.r)
    [] IxSorts(r) ->
         IF r.r \notin DOMAIN st.ix THEN st.ix
         ELSE IF ~Ok(r) THEN IxDrop(st.ix, r.r)
         ELSE IF st.ix[r.r].flag THEN st.ix
         ELSE Put(st.ix, r.r, [idx |-> StableOrder(st.heap[r.r].repls), flag |-> TRUE])
    [] OTHER -> st.ix
IxChecks(r, st) ==
  IF "ix" \in DOMAIN r /\ "tid" \notin DOMAIN r /\ (r.op \in {"build", "clone", "replace"} \/ IxSorts(r))
     /\ IxReg(r) \in DOMAIN IxNext(r, st)
    THEN {<<"DRIFT", "replace_index_follows_IndexM">>} ELSE {}
IxHolds(r, st) ==
  LET m == IxNext(r, st)[IxReg(r)]
  IN /\ r.ix.flag = m.flag
     /\ r.ix.idx = [i \in 1..Len(m.idx) |-> m.idx[i] - 1]

NextState0(r, st) ==
  CASE r.op = "begin" -> InitState
    [] r.op = "build" /\ Ok(r) ->
         [st EXCEPT !.heap[r.dst] = Close(Uniq(r.tree, <<st.nb>>), st.heap), !.nb = @ + 1,
                    !.obs = Forget(@, r.dst), !.eqs = ForgetEq(@, r.dst)]
    [] r.op = "clone" /\ Ok(r) ->
         [st EXCEPT !.heap[r.dst] = st.heap[r.src],
                    !.obs = Forget(@, r.dst), !.eqs = ForgetEq(@, r.dst)]
    [] r.op = "replace" /\ Ok(r) ->
         [st EXCEPT !.heap[r.r].repls =
            Append(@, [s |-> r.s, e |-> r.e, c |-> r.c, n |-> r.n,
                       enf |-> r.enf, api |-> r.api]),
                    !.obs = Forget(@, r.r), !.eqs = ForgetEq(@, r.r)]
    [] r.op = "add" /\ Ok(r) ->
         LET t == st.heap[r.r]
             a == Close(Uniq(r.tree, <<st.nb>>), st.heap)
         IN [st EXCEPT !.nb = @ + 1, !.obs = Forget(@, r.r), !.eqs = ForgetEq(@, r.r), !.heap[r.r] =
               IF "adds" \in DOMAIN t
                 THEN [t EXCEPT !.adds = Append(@, a)]
                 ELSE [x \in DOMAIN t \cup {"adds"} |->
                         IF x = "adds" THEN <<a>> ELSE t[x]]]
    [] r.op = "eq" /\ Ok(r) -> [st EXCEPT !.eqs = Put(@, <<r.a, r.b>>, r.out.eq)]
    [] r.op = "ev" /\ ReportsStored(r) /\ <<r.obj, r.key>> \notin DOMAIN st.stored ->
         [st EXCEPT !.stored = Put(@, <<r.obj, r.key>>, r.ident)]
    [] r.op \in {"buffer", "size"} /\ Ok(r) -> [st EXCEPT !.obs = Put(@, ObsKey(r), r.out)]
    [] r.op = "law" /\ r.law = "ref" ->
         [st EXCEPT !.ref = [x \in DOMAIN @ \cup ToSet(r.cached) |->
                              IF x \in ToSet(r.cached) THEN r.pure ELSE @[x]]]
    [] r.op \in {"source", "map", "stream", "hash"} /\ Ok(r) ->
         [st EXCEPT !.obs = Put(@, ObsKey(r), r.out),
                    !.cache = CacheAfter(@, r, st.heap[r.r]),
                    !.tc = IF TreeCApplies(r, st)
                             THEN (IF r.op = "stream" THEN StreamC(st.heap[r.r], r.columns, r.final, @).cs
                                   ELSE MapC(st.heap[r.r], r.columns, @).cs)
                             ELSE @]
    [] OTHER -> st

(* map() of a CachedSource returns the value its cache holds for the option  *)
(* set - a hit returns it, a miss stores its own or finds another thread's - *)
(* and that value is never replaced: so all answers on one cache, from any   *)
(* thread and from the sequential calls after the threads have finished, are *)
(* one value.                                                                *)
CmApplies(r, st) ==
  /\ st.inconc /\ r.op = "map" /\ Ok(r) /\ r.r \in DOMAIN st.ref
  /\ st.heap[r.r] # Nil /\ st.heap[r.r].k = "cached"
CmKey(r, st) == <<st.ref[r.r], r.columns>>
CmNext(r, st) ==
  IF r.op \in {"begin", "conc_begin"} THEN NoObs
  ELSE IF CmApplies(r, st) /\ CmKey(r, st) \notin DOMAIN st.cm THEN Put(st.cm, CmKey(r, st), r.out.map)
  ELSE st.cm

NextState(r, st) ==
  [NextState0(r, st) EXCEPT !.ix = IxNext(r, st), !.cm = CmNext(r, st),
                            !.inconc = IF r.op = "conc_begin" THEN TRUE
                                       ELSE IF r.op = "begin" THEN FALSE ELSE st.inconc]

-----------------------------------------------------------------------------
(* helpers over stream records                                              *)
IsChunk(e) == e.t = "C"
ChunksOf(r) == SelectSeq(r.out.ev, IsChunk)
ChunkText(e) == IF e.x = <<>> THEN <<>> ELSE e.x[1]
Assembled(cs) == Concat([i \in 1..Len(cs) |-> ChunkText(cs[i])])

(* offsets[i] = number of bytes delivered before chunk i                    *)
Offsets(cs) ==
  LET step(acc, e) == <<Append(acc[1], acc[2]), acc[2] + Len(ChunkText(e))>>
  IN FoldLeft(step, <<<<>>, 0>>, cs)[1]

(* announce-before-use and density of indices in one stream                 *)
AnnounceOK(evs) ==
  LET step(acc, e) ==
        LET srcs == acc[1]
            names == acc[2]
            ok == acc[3]
        IN CASE e.t = "S" ->
                  <<srcs \cup {e.i}, names,
                    ok /\ (e.i \in srcs \/ e.i = Cardinality(srcs))>>
             [] e.t = "N" ->
                  <<srcs, names \cup {e.i},
                    ok /\ (e.i \in names \/ e.i = Cardinality(names))>>
             [] OTHER ->
                  <<srcs, names,
                    ok /\ (e.o = <<>> \/
                           (e.o[1] \in srcs /\ (e.o[4] = -1 \/ e.o[4] \in names)))>>
  IN FoldLeft(step, <<{}, {}, TRUE>>, evs)[3]

MapOf(r) == r.out.map[1]


-----------------------------------------------------------------------------
(* "law" records carry no call: they ask for a comparison of answers that   *)
(* were recorded earlier in the same program.                               *)
SeenStream(r, st) == st.obs[<<r.r, "stream", r.columns, FALSE>>]
Seen(st, reg, kind) == st.obs[<<reg, kind>>]
SeenMap(st, reg, columns) == st.obs[<<reg, "map", columns>>].map
HasSeen(st, key) == key \in DOMAIN st.obs

(* offsets of the children of a concatenation inside its text               *)
ChildOffsets(texts) ==
  FoldLeft(LAMBDA acc, t : <<Append(acc[1], acc[2]), acc[2] + Len(t)>>,
           <<<<>>, 0>>, texts)[1]

(* C06, columns = false: the first mapped child piece on each output line   *)
ExpectedConcatLines(childMaps, texts) ==
  LET whole == Concat(texts)
      pt == PosTable(whole)
      offs == ChildOffsets(texts)
      \* for child k: per child line j, <<output line, attribution>>
      pieces(k) ==
        LET la == LineAttrsOfOptMap(childMaps[k], texts[k])
        IN [j \in 1..Len(la) |-> <<pt[offs[k] + 1][1] + j - 1, la[j]>>]
      all == Concat([k \in 1..Len(texts) |-> pieces(k)])
  IN [ln \in 1..NumLines(whole) |->
        LET c == {i \in 1..Len(all) : all[i][1] = ln /\ all[i][2][1]}
        IN IF c = {} THEN LineOnly(Unmapped) ELSE all[Min(c)][2]]

(* the C06 requirement on a ReplaceSource lives in ReplReq (also used by    *)
(* MC_ReplaceM)                                                             *)

(* the property's domain: a file name shared between children carries the   *)
(* same content everywhere                                                  *)
FileEntries(optmap) ==
  IF optmap = <<>> THEN {}
  ELSE LET m == optmap[1]
       IN {<<FileOf(m, i - 1), HasContent(m, i - 1), ContentOf(m, i - 1)>> :
             i \in 1..Len(m.sources)}
SharedNamesAgree(optmaps) ==
  LET all == UNION {FileEntries(optmaps[k]) : k \in 1..Len(optmaps)}
  IN \A x \in all : \A y \in all : x[1] = y[1] => x = y

LawChecks(r, st) ==
  CASE r.law = "same" /\ AsciiConsistent(st.heap[r.a]) /\ AsciiConsistent(st.heap[r.b]) ->
         {<<"C13", "same_text">>, <<"C13", "same_attribution_columns">>,
          <<"C13", "same_attribution_lines">>}
    [] r.law = "concat_children" /\ AsciiConsistent(st.heap[r.r])
         /\ SharedNamesAgreeInTree(st.heap[r.r]) ->
         {<<"C06", "concat_keeps_child_attribution">>,
          <<"C06", "concat_lines_first_mapped_piece">>}
         \* the stream a consumer (a ReplaceSource, a CachedSource) reads: a cached child may
         \* answer the second call from what the first stored (K1/K4), so cache-free trees only
         \cup (IF /\ \A x \in {r.r} \cup ToSet(r.children) : <<x, "stream", TRUE, FALSE>> \in DOMAIN st.obs
                    /\ "cached" \notin Kinds(st.heap[r.r])
                 THEN {<<"C06", "concat_stream_keeps_child_streams">>} ELSE {})
         \cup (IF /\ \A x \in {r.r} \cup ToSet(r.children) : <<x, "stream", TRUE, FALSE>> \in DOMAIN st.obs
                    /\ "cached" \notin Kinds(st.heap[r.r])
                 THEN {<<"DRIFT", "concat_stream_follows_ConcatM">>} ELSE {})
         \cup (IF /\ \A x \in {r.r} \cup ToSet(r.children) : <<x, "stream", TRUE, TRUE>> \in DOMAIN st.obs
                    \* a cached child answers the second call from what the first stored
                    /\ "cached" \notin Kinds(st.heap[r.r])
                 THEN {<<"DRIFT", "concat_final_follows_ConcatM">>} ELSE {})
         \cup (IF \E k \in 1..Len(r.children) :
                    LET t == st.heap[r.children[k]]
                    IN IsMapLeaf(t) /\ MapFitsText(LeafMap(t), t.b)
                 THEN {<<"C08", "via_enclosing_map">>} ELSE {})
    [] r.law = "replace_inner" /\ AsciiConsistent(st.heap[r.r]) ->
         {<<"C06", "replace_keeps_inner_attribution">>, <<"DRIFT", "replace_stream_follows_ReplaceM">>}
    [] r.law = "edit_pair" -> {<<"C20", "different_observables_different_hash">>}
    [] OTHER -> {}

LawHolds(c, r, st) ==
  CASE c = <<"C13", "same_text">> ->
         Seen(st, r.a, "source").t = Seen(st, r.b, "source").t
    [] c = <<"C13", "same_attribution_columns">> ->
         LET text == Seen(st, r.a, "source").t
         IN SameCore(ByteAttrsOfOptMap(SeenMap(st, r.a, TRUE), text),
                     ByteAttrsOfOptMap(SeenMap(st, r.b, TRUE), text))
    [] c = <<"C13", "same_attribution_lines">> ->
         LET text == Seen(st, r.a, "source").t
         IN LineAttrsOfOptMap(SeenMap(st, r.a, FALSE), text)
              = LineAttrsOfOptMap(SeenMap(st, r.b, FALSE), text)
    [] c = <<"C06", "concat_keeps_child_attribution">> ->
         LET n == Len(r.children)
             texts == [k \in 1..n |-> Seen(st, r.children[k], "source").t]
             whole == ByteAttrsOfOptMap(SeenMap(st, r.r, TRUE), Concat(texts))
             offs == ChildOffsets(texts)
         IN /\ Seen(st, r.r, "source").t = Concat(texts)
            /\ \A k \in 1..n :
                 LET own == ByteAttrsOfOptMap(SeenMap(st, r.children[k], TRUE), texts[k])
                 IN \A i \in 1..Len(texts[k]) :
                      Full(whole[offs[k] + i]) = Full(own[i])
    [] c = <<"C06", "replace_keeps_inner_attribution">> ->
         ReplaceKeepsAttribution(
           StreamChunks(st.obs[<<r.inner, "stream", TRUE, FALSE>>].ev),
           StreamChunks(st.obs[<<r.r, "stream", TRUE, FALSE>>].ev),
           st.heap[r.r].repls)
    [] c = <<"C08", "via_enclosing_map">> ->
         LET n == Len(r.children)
             texts == [k \in 1..n |-> Seen(st, r.children[k], "source").t]
             whole == ByteAttrsOfOptMap(SeenMap(st, r.r, TRUE), Concat(texts))
             offs == ChildOffsets(texts)
         IN \A k \in 1..n :
              LET t == st.heap[r.children[k]]
              IN (IsMapLeaf(t) /\ MapFitsText(LeafMap(t), t.b)) =>
                   LET given == ByteAttrsOfMap(LeafMap(t), t.b)
                   IN \A i \in 1..Len(t.b) : Full(whole[offs[k] + i]) = Full(given[i])
    [] c = <<"C06", "concat_stream_keeps_child_streams">> ->
         LET n == Len(r.children)
             mine == ByteAttrsOfStream(StreamChunks(st.obs[<<r.r, "stream", TRUE, FALSE>>].ev))
             theirs == Concat([k \in 1..n |->
                         ByteAttrsOfStream(StreamChunks(st.obs[<<r.children[k], "stream", TRUE, FALSE>>].ev))])
         IN SameFull(mine, theirs)
    [] c = <<"C06", "concat_lines_first_mapped_piece">> ->
         LET n == Len(r.children)
             texts == [k \in 1..n |-> Seen(st, r.children[k], "source").t]
             maps == [k \in 1..n |-> SeenMap(st, r.children[k], FALSE)]
         IN LineAttrsOfOptMap(SeenMap(st, r.r, FALSE), Concat(texts))
              = ExpectedConcatLines(maps, texts)

-----------------------------------------------------------------------------
(* C04: the map points to where the text really came from                   *)
C04Holds(c, r, t) ==
  LET text == TextOf(t)
      P == Prov(t)
      pt == PosTable(text)
  IN
  CASE c = <<"C04", "no_map_means_no_original">> ->
         \A i \in 1..Len(P) : P[i].k = "orig" => (text[i] = NL /\ P[i].c = 0)
    [] c = <<"C04", "segments_point_to_origin">> ->
         LET m == MapOf(r)
             segs == DecodeMappings(m.m)
         IN \A j \in 1..Len(segs) :
              segs[j].si >= 0 =>
                \E i \in 1..Len(text) :
                  /\ pt[i] = <<segs[j].gl, segs[j].gc>>
                  /\ \/ P[i].k = "repl"
                     \/ /\ P[i].k = "orig"
                        /\ <<P[i].f, P[i].l, P[i].c>>
                             = <<FileOf(m, segs[j].si), segs[j].ol, segs[j].oc>>
    [] c = <<"C04", "originals_covered">> ->
         LET A == ByteAttrsOfMap(MapOf(r), text)
         IN \A i \in 1..Len(text) :
              (P[i].k = "orig" /\ ~(text[i] = NL /\ P[i].c = 0)) =>
                (A[i].m /\ A[i].f = P[i].f /\ A[i].l = P[i].l /\ A[i].c <= P[i].c)
    [] c = <<"C04", "raw_unmapped">> ->
         LET A == ByteAttrsOfMap(MapOf(r), text)
         IN \A i \in 1..Len(text) : P[i].k = "raw" => ~A[i].m
    [] c = <<"C04", "statement_starts_exact">> ->
         LET A == ByteAttrsOfMap(MapOf(r), text)
             S == StmtFlags(t)
         IN \A i \in 1..Len(text) :
              (S[i] /\ P[i].k = "orig") =>
                (A[i].m /\ <<A[i].f, A[i].l, A[i].c>> = <<P[i].f, P[i].l, P[i].c>>)
    [] c = <<"C04", "sources_table">> ->
         LET m == MapOf(r)
             entries == TreeFileEntries(t)
         IN /\ \A i \in 1..Len(m.sources) : \A j \in 1..Len(m.sources) :
                 m.sources[i] = m.sources[j] => i = j
            /\ \A i \in 1..Len(m.sources) :
                 \E e \in entries :
                   e[1] = FileOf(m, i - 1) /\ e[3] = ContentOf(m, i - 1)
    [] c = <<"C04", "lines_first_original">> ->
         LET LA == LineAttrsOfMap(MapOf(r), text)
         IN \A ln \in 1..NumLines(text) :
              LET idx == {i \in 1..Len(text) : pt[i][1] = ln /\ P[i].k = "orig"}
              IN IF idx = {} THEN ~LA[ln][1]
                 ELSE LA[ln] = <<TRUE, P[Min(idx)].f, P[Min(idx)].l>>

-----------------------------------------------------------------------------
(* C12: the mappings codec against the v3 format of Vlq.tla                 *)
SegOf(x) == [gl |-> x[1], gc |-> x[2], si |-> x[3], ol |-> x[4], oc |-> x[5], ni |-> x[6]]
SegsOf(xs) == [i \in 1..Len(xs) |-> SegOf(xs[i])]

TwoTo30 == 1073741824
CodecDomain(segs) ==
  /\ SortedSegs(segs)
  /\ \A i \in 1..Len(segs) :
       /\ segs[i].gl >= 1 /\ segs[i].gl <= TwoTo30 /\ segs[i].gc >= 0 /\ segs[i].gc <= TwoTo30
       /\ segs[i].si >= 0 =>
            /\ segs[i].si <= TwoTo30 /\ segs[i].ol >= 1 /\ segs[i].ol <= TwoTo30
            /\ segs[i].oc >= 0 /\ segs[i].oc <= TwoTo30 /\ segs[i].ni <= TwoTo30

RawAttr(s) == IF s.si < 0 THEN <<-1, 0, 0, -1>> ELSE <<s.si, s.ol, s.oc, s.ni>>
RawResolve(segs, line, col) ==
  LET i == CoverIdx(segs, line, col)
  IN IF i = 0 THEN <<-1, 0, 0, -1>> ELSE RawAttr(segs[i])

(* is xs a subsequence of ys ?                                              *)
IsSubsequence(xs, ys) ==
  LET step(k, y) == IF k <= Len(xs) /\ xs[k] = y THEN k + 1 ELSE k
  IN FoldLeft(step, 1, ys) = Len(xs) + 1

C12Holds(c, r) ==
  CASE c = <<"C12", "decode_matches_format">> ->
         WellFormedMappings(r.out.m) /\ SegsOf(r.out.dec) = DecodeMappings(r.out.m)
    [] c = <<"C12", "roundtrip_resolves_same">> ->
         LET input == SegsOf(r.segs)
             dec == DecodeMappings(r.out.m)
         IN \A i \in 1..Len(input) :
              RawResolve(dec, input[i].gl, input[i].gc)
                = RawResolve(input, input[i].gl, input[i].gc)
    [] c = <<"C12", "kept_is_subsequence">> ->
         IsSubsequence(DecodeMappings(r.out.m), SegsOf(r.segs))
    [] c = <<"C12", "reencode_stable">> -> r.out.re = r.out.m
    [] c = <<"C12", "decoder_matches_format">> ->
         SegsOf(r.out.dec) = DecodeMappings(r.m)
    [] c = <<"C12", "lines_only_first_mapped">> ->
         LET input == SegsOf(r.segs)
             lines == SetToSortSeq({input[i].gl : i \in {j \in 1..Len(input) : input[j].si >= 0}}, <)
             expected == [k \in 1..Len(lines) |->
                            LET s == input[FirstMappedIdx(input, lines[k])]
                            IN <<s.gl, 0, s.si, s.ol, -1>>]
             dec == IF r.out.m = <<>> THEN <<>> ELSE DecodeMappings(r.out.m[1])
         IN /\ (r.out.m # <<>> => WellFormedMappings(r.out.m[1]))
            /\ [k \in 1..Len(dec) |-> <<dec[k].gl, dec[k].gc, dec[k].si, dec[k].ol, dec[k].ni>>]
                 = expected
    \* the whole u32 range (VlqW.tla): what the format reads out of the produced string is the input
    \* (no segment of these programs may be dropped), the crate's own decoder reads the same, a second
    \* encoding is stable, and the line-only encoder keeps file and line of each line's first segment
    [] c = <<"C12", "wide_decodes_to_input">> ->
         LET d == WDecode(r.out.m) IN d.ok /\ d.segs = r.segs
    [] c = <<"C12", "wide_roundtrip">> -> r.out.dec = r.segs
    [] c = <<"C12", "wide_reencode_stable">> -> r.out.re = r.out.m
    [] c = <<"C12", "wide_lines_only_first_mapped">> ->
         /\ r.out.lm # <<>>
         /\ LET d == WDecode(r.out.lm[1])
            IN /\ d.ok
               /\ {<<d.segs[i].gl, d.segs[i].si, d.segs[i].ol>> : i \in 1..Len(d.segs)} = WFirstPerLine(r.segs)
               /\ Len(d.segs) = Cardinality(WFirstPerLine(r.segs))
    [] c = <<"C12", "vlq_digits">> ->
         /\ Len(r.out.digits) = r.hi - r.lo + 1
         /\ \A i \in 1..Len(r.out.digits) :
              /\ r.out.digits[i] = Digits(r.lo + i - 1)
              /\ r.out.oc[i] = r.base + r.lo + i - 1

-----------------------------------------------------------------------------
(* C10: a CachedSource (and its clones) answers like the wrapped source,    *)
(* whatever was called before.  The wrapped tree is held, never cached, in  *)
(* another register whose answers were recorded first.                      *)
IsCachedCall(r, st) ==
  /\ "r" \in DOMAIN r /\ r.r \in DOMAIN st.ref
  /\ AsciiConsistent(st.heap[r.r]) /\ ~CachedUnderReplace(st.heap[r.r])

PureOf(r, st, key) == st.obs[<<st.ref[r.r]>> \o key]
HasPure(r, st, key) == (<<st.ref[r.r]>> \o key) \in DOMAIN st.obs

(* the name of a C10 predicate says in which cache state the call was made  *)
C10Name(base, r, st) ==
  LET t == st.heap[r.r]
      how == IF t.k = "cached" THEN CacheHow(st.cache, t, CacheKeyOf(r)) ELSE "parent"
  IN CASE how = "cold" -> base \o "_cold"
       [] how = "map" -> base \o "_filled_by_map"
       [] how = "stream" -> base \o "_filled_by_stream"
       [] OTHER -> base \o "_through_parent"

C10Checks(r, st) ==
  IF ~IsCachedCall(r, st) THEN {}
  ELSE CASE r.op = "source" /\ HasPure(r, st, <<"source">>) -> {<<"C10", "source">>}
         [] r.op = "buffer" /\ HasPure(r, st, <<"source">>) -> {<<"C10", "buffer">>}
         [] r.op = "size" /\ HasPure(r, st, <<"source">>) -> {<<"C10", "size">>}
         [] r.op = "map" /\ HasPure(r, st, <<"map", r.columns>>) ->
              {<<"C10", C10Name("map", r, st)>>}
         [] r.op = "stream" /\ ~r.final /\ HasPure(r, st, <<"stream", r.columns, FALSE>>) ->
              {<<"C10", C10Name("stream", r, st)>>}
         [] r.op = "hash" /\ r.h = "twox" -> {<<"C10", "hash_stable">>}
         [] OTHER -> {}

C10Holds(c, r, st) ==
  LET t == st.heap[r.r] IN
  CASE c[2] = "source" -> r.out.t = PureOf(r, st, <<"source">>).t
    [] c[2] = "buffer" -> r.out.b = PureOf(r, st, <<"source">>).t
    [] c[2] = "size" -> r.out.n = Len(PureOf(r, st, <<"source">>).t)
    [] c[2] = "hash_stable" ->
         \A k \in DOMAIN st.obs :
           (Len(k) = 2 /\ k[2] = "hash" /\ k[1] \in DOMAIN st.ref /\ st.ref[k[1]] = st.ref[r.r]
            /\ st.heap[k[1]] = t)
             => st.obs[k] = r.out
    [] r.op = "map" ->
         LET pure == PureOf(r, st, <<"map", r.columns>>).map
             text == TextOf(t)
         IN IF r.columns
              THEN SameCore(ByteAttrsOfOptMap(r.out.map, text), ByteAttrsOfOptMap(pure, text))
              ELSE LineAttrsOfOptMap(r.out.map, text) = LineAttrsOfOptMap(pure, text)
    [] r.op = "stream" ->
         LET pure == PureOf(r, st, <<"stream", r.columns, FALSE>>)
             mine == StreamChunks(r.out.ev)
             theirs == StreamChunks(pure.ev)
         IN /\ StreamText(mine) = StreamText(theirs)
            /\ r.out.end = pure.end
            /\ IF r.columns
                 THEN SameCore(ByteAttrsOfStream(mine), ByteAttrsOfStream(theirs))
                 ELSE LineAttrsOfStream(mine) = LineAttrsOfStream(theirs)

-----------------------------------------------------------------------------
(* C14: equality, hashing and cloning are coherent and do not depend on     *)
(* what was observed before.  C20: observably different trees hash          *)
(* differently, reproducibly.                                               *)
HasObs(st, key) == key \in DOMAIN st.obs

SameAnswer(op, r, old) ==
  CASE op = "source" -> r.out.t = old.t
    [] op = "buffer" -> r.out.b = old.b
    [] op = "size" -> r.out.n = old.n
    [] op = "hash" -> r.out = old
    [] op = "stream" ->
         LET mine == StreamChunks(r.out.ev)
             theirs == StreamChunks(old.ev)
         IN /\ StreamText(mine) = StreamText(theirs)
            /\ r.out.end = old.end
            /\ IF r.final \/ ~IsAscii(StreamText(mine)) THEN TRUE
               ELSE IF r.columns
                 THEN SameCore(ByteAttrsOfStream(mine), ByteAttrsOfStream(theirs))
                 ELSE LineAttrsOfStream(mine) = LineAttrsOfStream(theirs)

C14Checks(r, st) ==
  CASE r.op = "eq" ->
         (IF <<r.b, r.a>> \in DOMAIN st.eqs THEN {<<"C14", "eq_symmetric">>} ELSE {})
         \cup (IF <<r.a, r.b>> \in DOMAIN st.eqs THEN {<<"C14", "eq_stable">>} ELSE {})
         \cup (IF Strip(st.heap[r.a]) = Strip(st.heap[r.b])
                THEN {<<"C14", "same_construction_equal">>} ELSE {})
         \cup (IF r.out.typed # <<>> THEN {<<"C14", "typed_agrees_with_dyn">>} ELSE {})
         \cup (IF r.out.eq /\ HasObs(st, <<r.a, "hash">>) /\ HasObs(st, <<r.b, "hash">>)
                THEN {<<"C14", "equal_implies_same_hash">>} ELSE {})
         \cup (IF r.out.eq /\ HasObs(st, <<r.a, "source">>) /\ HasObs(st, <<r.b, "source">>)
                THEN {<<"C14", "equal_implies_same_answers">>} ELSE {})
    [] r.op \in {"source", "buffer", "size", "hash", "map", "stream"} /\ HasObs(st, ObsKey(r))
         /\ r.r \notin DOMAIN st.ref ->
         {<<"C14", "observer_repeatable">>}
    [] OTHER -> {}

C14Holds(c, r, st) ==
  CASE c[2] = "eq_symmetric" -> r.out.eq = st.eqs[<<r.b, r.a>>]
    [] c[2] = "eq_stable" -> r.out.eq = st.eqs[<<r.a, r.b>>]
    [] c[2] = "same_construction_equal" -> r.out.eq
    [] c[2] = "typed_agrees_with_dyn" -> r.out.typed[1] = r.out.eq
    [] c[2] = "equal_implies_same_hash" ->
         st.obs[<<r.a, "hash">>] = st.obs[<<r.b, "hash">>]
    [] c[2] = "equal_implies_same_answers" ->
         /\ st.obs[<<r.a, "source">>].t = st.obs[<<r.b, "source">>].t
         /\ (HasObs(st, <<r.a, "buffer">>) /\ HasObs(st, <<r.b, "buffer">>)) =>
              st.obs[<<r.a, "buffer">>].b = st.obs[<<r.b, "buffer">>].b
         /\ (HasObs(st, <<r.a, "size">>) /\ HasObs(st, <<r.b, "size">>)) =>
              st.obs[<<r.a, "size">>].n = st.obs[<<r.b, "size">>].n
         /\ \A col \in BOOLEAN :
              (HasObs(st, <<r.a, "map", col>>) /\ HasObs(st, <<r.b, "map", col>>)) =>
                LET text == st.obs[<<r.a, "source">>].t
                    ma == st.obs[<<r.a, "map", col>>].map
                    mb == st.obs[<<r.b, "map", col>>].map
                IN IF ~AsciiConsistent(st.heap[r.a]) /\ col   \* positions are only resolved for ASCII
                     THEN SegValsOfOptMap(ma) = SegValsOfOptMap(mb)
                   ELSE IF col THEN SameFull(ByteAttrsOfOptMap(ma, text), ByteAttrsOfOptMap(mb, text))
                   ELSE LineAttrsOfOptMap(ma, text) = LineAttrsOfOptMap(mb, text)
    [] c[2] = "observer_repeatable" ->
         IF r.op = "map"
           THEN LET text == TextOf(st.heap[r.r])
                    old == st.obs[ObsKey(r)].map
                IN IF ~AsciiConsistent(st.heap[r.r]) /\ r.columns
                     THEN SegValsOfOptMap(r.out.map) = SegValsOfOptMap(old)
                   ELSE IF r.columns
                     THEN SameCore(ByteAttrsOfOptMap(r.out.map, text), ByteAttrsOfOptMap(old, text))
                     ELSE LineAttrsOfOptMap(r.out.map, text) = LineAttrsOfOptMap(old, text)
           ELSE SameAnswer(r.op, r, st.obs[ObsKey(r)])

MapsDiffer(st, a, b, col) ==
  HasObs(st, <<a, "map", col>>) /\ HasObs(st, <<b, "map", col>>)
  /\ st.obs[<<a, "map", col>>].map # st.obs[<<b, "map", col>>].map

ObservablyDifferent(st, a, b) ==
  \/ (HasObs(st, <<a, "source">>) /\ HasObs(st, <<b, "source">>)
      /\ st.obs[<<a, "source">>].t # st.obs[<<b, "source">>].t)
  \/ (HasObs(st, <<a, "buffer">>) /\ HasObs(st, <<b, "buffer">>)
      /\ st.obs[<<a, "buffer">>].b # st.obs[<<b, "buffer">>].b)
  \/ MapsDiffer(st, a, b, TRUE) \/ MapsDiffer(st, a, b, FALSE)

C20Holds(c, r, st) ==
  CASE c[2] = "different_observables_different_hash" ->
         ObservablyDifferent(st, r.a, r.b) =>
           /\ st.obs[<<r.a, "hash">>] # st.obs[<<r.b, "hash">>]
           /\ ~st.eqs[<<r.a, r.b>>]
    [] c[2] = "hash_reproducible" ->
         /\ r.out.local = r.out.thread /\ r.out.local = r.out.process
         /\ \A k \in DOMAIN st.obs :
              (Len(k) = 2 /\ k[2] = "hash" /\ Strip(st.heap[k[1]]) = Strip(Close(r.tree, st.heap)))
                => st.obs[k].hex = r.out.local

-----------------------------------------------------------------------------
(* C15: the JSON form of a SourceMap.  A value is [m, sources, contents,    *)
(* names, root, file, dbg]; a parsed document has every field as a 0/1      *)
(* element sequence (absent / present).                                     *)
AllEmpty(ss) == \A i \in 1..Len(ss) : ss[i] = <<>>
SameMap(a, b) ==
  /\ a.m = b.m /\ a.sources = b.sources /\ a.contents = b.contents
  /\ a.names = b.names /\ a.root = b.root /\ a.file = b.file /\ a.dbg = b.dbg

(* what a document built from fields [[key, kind, value]...] must read as   *)
FieldIdx(fields, key) ==
  LET c == {i \in 1..Len(fields) : fields[i][1] = key} IN IF c = {} THEN 0 ELSE Min(c)
(* entries of a "strs" field are <<>> (JSON null) or <<string>>              *)
StrsOf(fields, key) ==
  LET i == FieldIdx(fields, key)
  IN IF i = 0 \/ fields[i][2] # "strs" THEN <<>>
     ELSE [j \in 1..Len(fields[i][3]) |->
             IF fields[i][3][j] = <<>> THEN <<>> ELSE fields[i][3][j][1]]
OptStrOf(fields, key) ==
  LET i == FieldIdx(fields, key)
  IN IF i = 0 \/ fields[i][2] # "str" THEN <<>> ELSE <<fields[i][3]>>
HasMappings(fields) ==
  LET i == FieldIdx(fields, "mappings") IN i # 0 /\ fields[i][2] = "str"
ValOfDoc(fields) ==
  [m |-> fields[FieldIdx(fields, "mappings")][3],
   sources |-> StrsOf(fields, "sources"), contents |-> StrsOf(fields, "sourcesContent"),
   names |-> StrsOf(fields, "names"), root |-> OptStrOf(fields, "sourceRoot"),
   file |-> OptStrOf(fields, "file"), dbg |-> OptStrOf(fields, "debugId")]

C15Holds(c, r) ==
  CASE c[2] = "serialises" -> r.out.res = "ok"
    [] c[2] = "writer_equals_json" -> r.out.writer_ok /\ r.out.writer = r.out.json
    \* writers that take less than they are offered (one byte, seven bytes per call, one interrupted
    \* call) still receive the whole document; a writer that stops taking bytes half way never
    \* makes to_writer report success, and has received a prefix of the document
    [] c[2] = "writer_script" ->
         /\ Len(r.out.w_scripts) = Len(r.scripts)
         /\ \A i \in 1..Len(r.out.w_scripts) :
              LET x == r.out.w_scripts[i]
              IN /\ IsPrefix(x.w, r.out.json)
                 /\ x.ok => x.w = r.out.json
                 /\ x.after = 0
                 /\ (~x.ok) <=> (x.hard > 0)
    [] c[2] = "writer_short_writes" ->
         /\ r.out.w_chunky.ok /\ r.out.w_chunky.w = r.out.json
         /\ r.out.w_chunk7.ok /\ r.out.w_chunk7.w = r.out.json
         /\ r.out.w_intr.ok /\ r.out.w_intr.w = r.out.json
         /\ \A x \in {r.out.w_zero, r.out.w_err} :
              /\ IsPrefix(x.w, r.out.json)
              /\ x.ok => x.w = r.out.json
    [] c[2] = "document_matches_value" ->
         /\ r.out.doc # <<>>
         /\ LET d == r.out.doc[1]
                v == r.map
            IN /\ d.is_object /\ d.extra = 0
               /\ d.version = <<3>>
               /\ d.mappings = <<v.m>>
               /\ d.sources = <<v.sources>>
               /\ d.names = <<v.names>>
               /\ d.sourcesContent = IF AllEmpty(v.contents) THEN <<>> ELSE <<v.contents>>
               /\ d.file = v.file /\ d.sourceRoot = v.root /\ d.debugId = v.dbg
    [] c[2] = "round_trip" ->
         LET v == [r.map EXCEPT !.contents = IF AllEmpty(@) THEN <<>> ELSE @]
             ok(b) == b # <<>> /\ SameMap(b[1], v)
         IN /\ ok(r.out.back_json) /\ ok(r.out.back_slice) /\ ok(r.out.back_reader)
            \* readers that hand out one byte, or seven bytes after one interrupted call, at a time
            /\ ok(r.out.back_reader1) /\ ok(r.out.back_reader7)
    [] c[2] = "entry_points_agree" ->
         /\ r.out.json = r.out.slice /\ r.out.json = r.out.reader
         /\ r.out.json = r.out.reader1 /\ r.out.json = r.out.reader7
    [] c[2] = "document_reads_as_value" ->
         IF HasMappings(r.fields)
           THEN r.out.json.res = "ok" /\ SameMap(r.out.json.map[1], ValOfDoc(r.fields))
           ELSE r.out.json.res = "err"

-----------------------------------------------------------------------------
(* C16: the rope answers like the flat string                               *)
UnaryOK(o, t) ==
  o.panics = <<>> =>
    /\ o.len = Len(t)
    /\ o.is_empty = (t = <<>>)
    /\ o.to_string = t /\ o.to_bytes = t
    /\ o.bytes = t /\ o.byte_past_end = -1
    /\ o.char_indices = CharIndices(t)
    /\ o.lines = RopeLines(t)
    /\ \A i \in 1..Len(o.ends_with) : o.ends_with[i][2] = EndsWithChar(t, o.ends_with[i][1])

BinaryOK(o, x, y) ==
  o.panics = <<>> =>
    /\ o.starts_with = IsPrefix(y, x)
    /\ o.eq = (x = y) /\ o.eq_str = (x = y) /\ o.eq_ref = (x = y)

C16Holds(c, r) ==
  LET x == FlatOf(r.a, r.pieces)
      y == FlatOf(r.b, r.pieces)
  IN
  CASE c[2] = "definedness_agrees" ->
         r.out.valid = (x # Invalid /\ y # Invalid)
    [] c[2] = "no_panic" ->
         /\ r.out.a.panics = <<>> /\ r.out.b.panics = <<>>
         /\ r.out.ab.panics = <<>> /\ r.out.ba.panics = <<>>
         /\ r.out.slices.panics = <<>>
    [] c[2] = "unary_observers" -> UnaryOK(r.out.a, x) /\ UnaryOK(r.out.b, y)
    [] c[2] = "binary_observers" -> BinaryOK(r.out.ab, x, y) /\ BinaryOK(r.out.ba, y, x)
    [] c[2] = "byte_slices" ->
         r.out.slices.panics = <<>> =>
           /\ Len(r.out.slices.all) = (Len(x) + 2) * (Len(x) + 2)
           /\ \A i \in 1..Len(r.out.slices.all) :
                LET s == r.out.slices.all[i]
                IN IF SliceOK(x, s[1], s[2])
                     THEN s[3] = <<SubSeq(x, s[1] + 1, s[2])>>
                     ELSE s[3] = <<>>
           \* a.., ..b, a..=b, .. and the panicking byte_slice, as half-open ranges
           /\ Len(r.out.slices.more) = 2 * (Len(x) + 2) * (Len(x) + 2) + 2 * (Len(x) + 2) + 1
           /\ \A i \in 1..Len(r.out.slices.more) :
                LET s == r.out.slices.more[i]
                IN IF SliceOK(x, s[1], s[2])
                     THEN s[3] = <<SubSeq(x, s[1] + 1, s[2])>>
                     ELSE s[3] = <<>>

-----------------------------------------------------------------------------
(* C19: every executed unsafe operation met its stated precondition.  The   *)
(* crate (feature verif) evaluates the precondition immediately before the  *)
(* operation; one predicate per site reached, so that the run also shows    *)
(* which sites were exercised.                                              *)
C19Checks(r) ==
  IF "probes" \notin DOMAIN r THEN {}
  ELSE {<<"C19", "preconditions_hold">>}
       \cup {<<"C19", r.probes.sites[i][1]>> : i \in 1..Len(r.probes.sites)}

-----------------------------------------------------------------------------
(* C18: concurrent readers.  Records with a `tid` are returns of calls made *)
(* by scheduled threads; "ev" records are the shared-state accesses in the  *)
(* order the scheduler released them.  Events that report the identity of   *)
(* the map STORED for an option set feed the write-once monitor.            *)
C18Checks(r, st) ==
  CASE r.op = "ev" ->
         IF ReportsStored(r) /\ <<r.obj, r.key>> \in DOMAIN st.stored
           THEN {<<"C18", "cached_value_never_replaced">>,
                 <<"C19", "cached_map_borrow_stays_valid">>} ELSE {}
    [] r.op = "conc_end" -> {<<"C18", "no_deadlock">>, <<"DRIFT", "schedule_replayed">>}
    \* refusal probe: a thread released although Conc says it must wait for a shard lock
    [] r.op = "probe" -> {<<"DRIFT", "lock_refuses_as_modelled">>}
    [] r.op = "map" /\ "tid" \notin DOMAIN r ->
         IF CmApplies(r, st) /\ CmKey(r, st) \in DOMAIN st.cm
           THEN {<<"C18", "map_answers_are_the_cached_value">>} ELSE {}
    [] "tid" \in DOMAIN r /\ "r" \in DOMAIN r /\ r.r \in DOMAIN st.ref ->
         (IF CmApplies(r, st) /\ CmKey(r, st) \in DOMAIN st.cm
            THEN {<<"C18", "map_answers_are_the_cached_value">>} ELSE {}) \cup
         IF \/ r.op \in {"source", "buffer", "size"} /\ HasPure(r, st, <<"source">>)
            \/ r.op = "map" /\ HasPure(r, st, <<"map", r.columns>>)
            \/ r.op = "stream" /\ ~r.final /\ HasPure(r, st, <<"stream", r.columns, FALSE>>)
           THEN {<<"C18", "answer_is_sequential">>} ELSE {}
    [] OTHER -> {}

-----------------------------------------------------------------------------
(* which predicates apply to a record                                       *)
TreeOf(r, st) == st.heap[r.r]

Checks(r, st) ==
  IF r.op \in {"begin", "config"} \/ (r.op = "end" /\ "asan" \notin DOMAIN r) THEN {}
  \* a worker ended by an AddressSanitizer report (the sanitizer build exits with status 66)
  ELSE IF r.op = "died" THEN {<<"C17", "no_abort_or_hang">>}
                             \cup (IF r.status = "exit status: 66" THEN {<<"C19", "no_sanitizer_report">>} ELSE {})
  \* a program that ran to its end under the sanitizer
  ELSE IF r.op = "end" THEN {<<"C19", "no_sanitizer_report">>}
  ELSE IF r.oc = "harness" THEN {<<"TOOL", "harness_error">>}
  ELSE IF ~Ok(r) THEN {<<"C17", "no_panic">>} \cup C19Checks(r)
  ELSE {<<"C17", "no_panic">>} \cup IxChecks(r, st) \cup C10Checks(r, st) \cup C14Checks(r, st) \cup C19Checks(r)
       \cup C18Checks(r, st) \cup
    CASE r.op = "source" ->
           {<<"C07", "source_is_text">>} \cup
           (IF "replace" \in Kinds(TreeOf(r, st))
              THEN {<<"C05", "source_is_splice">>} ELSE {})
      [] r.op = "buffer" -> {<<"C07", "buffer">>}
      [] r.op = "size" -> {<<"C07", "size_is_buffer_len">>}
      [] r.op = "rope" ->
           {<<"C07", "rope_renders_to_text">>} \cup
           (IF "replace" \in Kinds(TreeOf(r, st))
              THEN {<<"C05", "rope_is_splice">>} ELSE {})
      [] r.op = "writer" -> IF r.kind = "script" THEN {<<"C07", "writer_script">>} ELSE {<<"C07", "writer">>}
      [] r.op = "stream" ->
           LET dom == PosDomain(TreeOf(r, st))
           IN (IF ~r.final
                 THEN {<<"C01", "chunks_have_text">>, <<"C01", "reassemble">>}
                      \* ... and to what source() itself answered on this value
                      \cup (IF <<r.r, "source">> \in DOMAIN st.obs
                              THEN {<<"C01", "reassemble_observed_source">>} ELSE {})
                 ELSE {})
              \cup (IF dom /\ ~r.final THEN {<<"C02", "chunk_positions">>} ELSE {})
              \cup (IF dom THEN {<<"C02", "end_position">>} ELSE {})
              \cup (IF dom /\ r.final THEN {<<"C02", "final_positions_in_text">>} ELSE {})
              \cup (IF dom THEN {<<"C11", "announce_before_use">>} ELSE {})
              \cup (IF TreeOf(r, st).k \in {"orig", "raw"}
                      THEN {<<"DRIFT", "leaf_stream_follows_LeafM">>} ELSE {})
              \cup (IF TreeCApplies(r, st) THEN {<<"DRIFT", "tree_stream_follows_TreeC">>} ELSE {})
              \cup (IF ModelledTree(TreeOf(r, st)) /\ TreeMDomain(TreeOf(r, st))
                         /\ SharedNamesAgreeInTree(TreeOf(r, st))
                      THEN {<<"DRIFT", "tree_stream_follows_TreeM">>} ELSE {})
              \cup (IF C09Domain(TreeOf(r, st))
                      THEN {<<"DRIFT", "combined_stream_follows_CombineM">>} ELSE {})
              \cup (LET t == TreeOf(r, st)
                    IN IF IsMapLeaf(t) /\ IsAscii(t.b) /\ MapFitsText(LeafMap(t), t.b)
                         THEN {<<"DRIFT", "sms_stream_follows_SplitM">>}
                              \cup
                              {<<"C08", "declared_tables">>,
                               IF r.columns
                                 THEN (IF r.final THEN <<"C08", "final_columns">>
                                                  ELSE <<"C08", "stream_columns">>)
                                 ELSE (IF r.final THEN <<"C08", "final_lines">>
                                                  ELSE <<"C08", "stream_lines">>)}
                         ELSE {})
      [] r.op = "map" ->
           (IF "tid" \notin DOMAIN r /\ "after" \notin DOMAIN r /\ TreeCDomain(TreeOf(r, st)) /\ SharedNamesAgreeInTree(TreeOf(r, st))
              THEN {<<"DRIFT", "tree_map_follows_TreeC">>} ELSE {}) \cup
           LET dom == PosDomain(TreeOf(r, st))
               seen == <<r.r, "stream", r.columns, FALSE>> \in DOMAIN st.obs
           IN (IF dom /\ r.out.map # <<>>
                 THEN {<<"C11", "map_charset">>, <<"C11", "map_well_formed">>,
                       <<"C11", "map_strictly_increasing">>,
                       <<"C11", "map_inside_text">>, <<"C11", "map_indices_in_tables">>}
                 ELSE {})
              \cup (IF dom /\ seen
                      THEN {<<"C03", "none_iff_no_mapped_chunk">>,
                            IF r.columns THEN <<"C03", "map_equals_stream_columns">>
                                         ELSE <<"C03", "map_equals_stream_lines">>}
                      ELSE {})
              \cup (IF r.out.map # <<>> /\ C04Domain(TreeOf(r, st))
                      THEN (IF r.columns
                              THEN {<<"C04", "segments_point_to_origin">>,
                                    <<"C04", "originals_covered">>,
                                    <<"C04", "raw_unmapped">>,
                                    <<"C04", "statement_starts_exact">>,
                                    <<"C04", "sources_table">>}
                              ELSE (IF "replace" \notin Kinds(TreeOf(r, st))
                                      THEN {<<"C04", "lines_first_original">>} ELSE {})
                                   \cup {<<"C04", "sources_table">>})
                      ELSE {})
              \cup (IF C09Domain(TreeOf(r, st))
                      THEN {IF r.columns THEN <<"C09", "compose_columns">>
                                         ELSE <<"C09", "compose_lines">>}
                      ELSE {})
              \cup (IF r.out.map = <<>> /\ C04Domain(TreeOf(r, st))
                      THEN {<<"C04", "no_map_means_no_original">>} ELSE {})
      [] r.op = "law" -> LawChecks(r, st)
      [] r.op = "hash_tree" -> {<<"C20", "hash_reproducible">>}
      [] r.op = "rope_obs" ->
           {<<"C16", "definedness_agrees">>} \cup
           (IF r.out.valid /\ FlatOf(r.a, r.pieces) # Invalid /\ FlatOf(r.b, r.pieces) # Invalid
              THEN {<<"C16", "no_panic">>, <<"C16", "unary_observers">>,
                    <<"C16", "binary_observers">>, <<"C16", "byte_slices">>,
                    <<"DRIFT", "rope_repr_follows_RopeM">>}
              ELSE {})
      [] r.op = "to_json" ->
           {<<"C15", "serialises">>} \cup
           (IF r.out.res = "ok" /\ "scripts" \in DOMAIN r THEN {<<"C15", "writer_script">>} ELSE {}) \cup
           (IF r.out.res = "ok"
              THEN {<<"C15", "writer_equals_json">>, <<"C15", "writer_short_writes">>,
                    <<"C15", "document_matches_value">>,
                    <<"C15", "round_trip">>}
              ELSE {})
      [] r.op = "parse_doc" ->
           {<<"C15", "entry_points_agree">>, <<"C15", "document_reads_as_value">>}
      [] r.op = "codec" ->
           IF CodecDomain(SegsOf(r.segs))
             THEN {<<"C12", "decode_matches_format">>, <<"C12", "roundtrip_resolves_same">>,
                   <<"C12", "kept_is_subsequence">>, <<"C12", "reencode_stable">>,
                   <<"DRIFT", "full_encoder_follows_EncM">>}
             ELSE {}
      [] r.op = "codec_wide" ->
           {<<"C12", "wide_decodes_to_input">>, <<"C12", "wide_roundtrip">>, <<"C12", "wide_reencode_stable">>,
            <<"C12", "wide_lines_only_first_mapped">>}
      [] r.op = "decode" ->
           (IF WellFormedMappings(r.m) THEN {<<"C12", "decoder_matches_format">>} ELSE {})
           \cup (IF ~r.out.big /\ ~DecodeM(r.m).big THEN {<<"DRIFT", "decoder_follows_DecM">>} ELSE {})
      [] r.op = "lines_encode" ->
           IF CodecDomain(SegsOf(r.segs))
             THEN {<<"C12", "lines_only_first_mapped">>, <<"DRIFT", "lines_encoder_follows_EncM">>}
             ELSE {}
      [] r.op = "vlq_batch" -> {<<"C12", "vlq_digits">>}
      [] r.op = "hash" /\ r.h = "feed" /\ HashModelled(TreeOf(r, st)) ->
           {<<"DRIFT", "hash_feed_follows_HashM">>}
      [] OTHER -> {}

-----------------------------------------------------------------------------
(* what the predicates say                                                  *)
Holds(c, r, st) ==
  LET t == TreeOf(r, st) IN
  CASE c[1] = "TOOL" -> FALSE
    [] c = <<"C17", "no_abort_or_hang">> -> FALSE
    [] c = <<"C19", "no_sanitizer_report">> -> r.op = "end"
    [] c = <<"C17", "no_panic">> -> Ok(r)
    [] c = <<"C07", "source_is_text">> -> r.out.t = TextOf(t)
    [] c = <<"C05", "source_is_splice">> -> r.out.t = TextOf(t)
    [] c = <<"C07", "buffer">> -> r.out.b = BufOf(t)
    [] c = <<"C07", "size_is_buffer_len">> -> r.out.n = Len(BufOf(t))
    [] c = <<"C07", "rope_renders_to_text">> ->
         r.out.t = TextOf(t) /\ r.out.b = TextOf(t) /\ r.out.n = Len(TextOf(t))
    [] c = <<"C05", "rope_is_splice">> -> r.out.t = TextOf(t)
    [] c = <<"C07", "writer">> ->
         LET buf == BufOf(t)
         IN /\ IsPrefix(r.out.w, buf)
            /\ r.out.res = "ok" => r.out.w = buf
            /\ r.kind \in {"ok", "intr", "chunky", "chunk7"} => r.out.res = "ok"
            \* "flaky" refuses one call and accepts the later ones: the error is returned and nothing
            \* is written after it (what was written stays a prefix)
            /\ (r.kind \in {"err", "zero", "flaky"} /\ r.k < Len(buf)) => r.out.res = "err"
    \* a writer that answers its first calls as a script of IoM says: what it holds is a prefix of buffer(),
    \* Ok means everything, a hard error (or Ok(0)) is returned and the writer is not called again, short
    \* writes and interrupted calls alone never make to_writer fail
    [] c = <<"C07", "writer_script">> ->
         LET buf == BufOf(t)
         IN /\ IsPrefix(r.out.w, buf)
            /\ r.out.res = "ok" => r.out.w = buf
            /\ r.out.after = 0
            /\ (r.out.res = "err") <=> (r.out.hard > 0)
    [] c = <<"C01", "chunks_have_text">> ->
         \A i \in 1..Len(r.out.ev) :
           r.out.ev[i].t = "C" => r.out.ev[i].x # <<>>
    [] c = <<"C01", "reassemble">> -> Assembled(ChunksOf(r)) = TextOf(t)
    [] c = <<"C01", "reassemble_observed_source">> ->
         Assembled(ChunksOf(r)) = st.obs[<<r.r, "source">>].t
    [] c = <<"C02", "chunk_positions">> ->
         LET cs == ChunksOf(r)
             pt == PosTable(Assembled(cs))
             off == Offsets(cs)
         IN \A i \in 1..Len(cs) : <<cs[i].gl, cs[i].gc>> = pt[off[i] + 1]
    [] c = <<"C02", "end_position">> -> r.out.end = EndPos(TextOf(t))
    [] c = <<"C02", "final_positions_in_text">> ->
         LET cs == ChunksOf(r)
             ps == CharPositions(TextOf(t))
         IN \A i \in 1..Len(cs) : <<cs[i].gl, cs[i].gc>> \in ps
    [] c = <<"C11", "announce_before_use">> -> AnnounceOK(r.out.ev)
    [] c = <<"C08", "stream_columns">> ->
         LET chunks == StreamChunks(r.out.ev)
         IN /\ StreamText(chunks) = t.b
            /\ SameFull(ByteAttrsOfStream(chunks), ByteAttrsOfMap(LeafMap(t), t.b))
    [] c = <<"C08", "stream_lines">> ->
         LET chunks == StreamChunks(r.out.ev)
         IN /\ StreamText(chunks) = t.b
            /\ LineAttrsOfStream(chunks) = LineAttrsOfMap(LeafMap(t), t.b)
            /\ NoNames(chunks)
    [] c = <<"C08", "final_columns">> ->
         LET chunks == StreamChunks(r.out.ev)
         IN SameFull(ByteAttrsOfEvents(chunks, t.b), ByteAttrsOfMap(LeafMap(t), t.b))
    [] c = <<"C08", "final_lines">> ->
         LET chunks == StreamChunks(r.out.ev)
         IN /\ LineAttrsOfEvents(chunks, t.b) = LineAttrsOfMap(LeafMap(t), t.b)
            /\ NoNames(chunks)
    [] c = <<"C08", "declared_tables">> ->
         LET m == LeafMap(t)
             tabs == StreamTables(r.out.ev)
         IN t.b # <<>> =>
              /\ DOMAIN tabs[1] = 0..(Len(m.sources) - 1)
              /\ \A i \in DOMAIN tabs[1] :
                   /\ tabs[1][i].f = FileOf(m, i)
                   /\ tabs[1][i].hc = HasContent(m, i)
                   /\ tabs[1][i].ct = ContentOf(m, i)
              /\ r.columns =>
                   /\ DOMAIN tabs[2] = 0..(Len(m.names) - 1)
                   /\ \A i \in DOMAIN tabs[2] : tabs[2][i] = m.names[i + 1]
    [] c = <<"C11", "map_charset">> ->
         \A i \in 1..Len(MapOf(r).m) : IsMappingsChar(MapOf(r).m[i])
    [] c = <<"C11", "map_well_formed">> -> WellFormedMappings(MapOf(r).m)
    [] c = <<"C11", "map_strictly_increasing">> ->
         StrictlySortedSegs(DecodeMappings(MapOf(r).m))
    [] c = <<"C11", "map_inside_text">> ->
         LET segs == DecodeMappings(MapOf(r).m)
             end == EndPos(TextOf(t))
         IN \A i \in 1..Len(segs) :
              segs[i].gl >= 1 /\ PosLt(<<segs[i].gl, segs[i].gc>>, end)
    [] c = <<"C03", "none_iff_no_mapped_chunk">> ->
         LET chunks == StreamChunks(SeenStream(r, st).ev)
             segs == IF r.out.map = <<>> THEN <<>> ELSE DecodeMappings(MapOf(r).m)
         IN /\ r.out.map = <<>> => ~AnyChunkMapped(chunks)
            /\ ~AnyChunkMapped(chunks) => ~HasMapped(segs)
    [] c = <<"C03", "map_equals_stream_columns">> ->
         LET chunks == StreamChunks(SeenStream(r, st).ev)
         IN SameCore(ByteAttrsOfOptMap(r.out.map, StreamText(chunks)),
                     ByteAttrsOfStream(chunks))
    [] c = <<"C03", "map_equals_stream_lines">> ->
         LET chunks == StreamChunks(SeenStream(r, st).ev)
         IN LineAttrsOfOptMap(r.out.map, StreamText(chunks)) = LineAttrsOfStream(chunks)
    [] c[1] \in {"C13", "C06", "C08"} /\ r.op = "law" -> LawHolds(c, r, st)
    [] c[1] = "C04" -> C04Holds(c, r, t)
    [] c[1] = "C10" -> C10Holds(c, r, st)
    [] c = <<"C18", "answer_is_sequential">> ->
         C10Holds(<<"C10", IF r.op \in {"source", "buffer", "size"} THEN r.op ELSE "x">>, r, st)
    [] c = <<"C18", "cached_value_never_replaced">> -> st.stored[<<r.obj, r.key>>] = r.ident
    [] c = <<"C19", "cached_map_borrow_stays_valid">> -> st.stored[<<r.obj, r.key>>] = r.ident
    [] c = <<"C18", "no_deadlock">> -> r.outcome # "deadlock"
    [] c = <<"C18", "map_answers_are_the_cached_value">> -> r.out.map = st.cm[CmKey(r, st)]
    [] c = <<"DRIFT", "full_encoder_follows_EncM">> -> r.out.m = EncodeFullM(SegsOf(r.segs))
    [] c = <<"DRIFT", "lines_encoder_follows_EncM">> ->
         LET m == EncodeLinesM(SegsOf(r.segs))
         IN r.out.m = IF m = <<>> THEN <<>> ELSE <<m>>
    [] c = <<"DRIFT", "sms_stream_follows_SplitM">> ->
         LET segs == DecodeMappings(LeafMap(t).m)
             model == IF r.columns THEN (IF r.final THEN SplitFinal(t.b, segs) ELSE SplitFull(t.b, segs))
                      ELSE (IF r.final THEN SplitLinesFinal(t.b, segs) ELSE SplitLinesFull(t.b, segs))
             cs == ChunksOf(r)
         IN /\ Len(cs) = Len(model)
            /\ \A i \in 1..Len(cs) :
                 /\ ChunkText(cs[i]) = model[i].x
                 /\ <<cs[i].gl, cs[i].gc>> = <<model[i].gl, model[i].gc>>
                 /\ (IF cs[i].o = <<>> THEN <<-1, 0, 0, -1>> ELSE cs[i].o) = RawOf(model[i].s)
    [] c = <<"DRIFT", "replace_stream_follows_ReplaceM">> ->
         \* text, positions AND attribution (by value) of every emitted chunk
         LET inner == st.obs[<<r.inner, "stream", TRUE, FALSE>>]
             mine == StreamChunks(st.obs[<<r.r, "stream", TRUE, FALSE>>].ev)
             model == ReplaceStream(StreamChunks(inner.ev), inner.end, Sorted(st.heap[r.r].repls))
         IN /\ Len(model.chunks) = Len(mine)
            /\ \A i \in 1..Len(mine) :
                 /\ <<model.chunks[i].x, model.chunks[i].gl, model.chunks[i].gc>>
                      = <<mine[i].x, mine[i].gl, mine[i].gc>>
                 /\ Full(model.chunks[i].a) = Full(mine[i].a)
            /\ model.end = st.obs[<<r.r, "stream", TRUE, FALSE>>].end
    [] c = <<"DRIFT", "concat_stream_follows_ConcatM">> ->
         LET strip(evs) == LET cs == SelectSeq(evs, IsChunk)
                           IN [i \in 1..Len(cs) |->
                                 [gl |-> cs[i].gl, gc |-> cs[i].gc, ni |-> -1,
                                  si |-> IF cs[i].o = <<>> THEN -1 ELSE 0,
                                  ol |-> IF cs[i].o = <<>> THEN 0 ELSE cs[i].o[2],
                                  oc |-> IF cs[i].o = <<>> THEN 0 ELSE cs[i].o[3],
                                  x |-> ChunkText(cs[i])]]
             kid(x) == LET o == st.obs[<<x, "stream", TRUE, FALSE>>]
                       IN [text |-> <<>>, evn |-> strip(o.ev), end |-> o.end]
             mine == st.obs[<<r.r, "stream", TRUE, FALSE>>]
             model == ConcatNormal([k \in 1..Len(r.children) |-> kid(r.children[k])])
         IN /\ model.out = strip(mine.ev)
            /\ <<model.lineOff + 1, model.colOff>> = mine.end
    [] c = <<"DRIFT", "concat_final_follows_ConcatM">> ->
         LET strip(evs) == LET cs == SelectSeq(evs, IsChunk)
                           IN [i \in 1..Len(cs) |->
                                 [gl |-> cs[i].gl, gc |-> cs[i].gc, ni |-> -1,
                                  si |-> IF cs[i].o = <<>> THEN -1 ELSE 0,
                                  ol |-> IF cs[i].o = <<>> THEN 0 ELSE cs[i].o[2],
                                  oc |-> IF cs[i].o = <<>> THEN 0 ELSE cs[i].o[3]]]
             kid(x) == LET o == st.obs[<<x, "stream", TRUE, TRUE>>]
                       IN [text |-> <<>>, ev |-> strip(o.ev), end |-> o.end]
             mine == st.obs[<<r.r, "stream", TRUE, TRUE>>]
             model == ConcatFinal([k \in 1..Len(r.children) |-> kid(r.children[k])])
         IN /\ model.out = strip(mine.ev)
            /\ <<model.lineOff + 1, model.colOff>> = mine.end
    [] c = <<"DRIFT", "leaf_stream_follows_LeafM">> ->
         LET model == IF t.k = "orig" THEN OrigStream(t.b, r.columns, r.final)
                      ELSE RawStream(TextOf(t), r.final)
             cs == ChunksOf(r)
         IN /\ Len(cs) = Len(model.ev)
            /\ \A i \in 1..Len(cs) :
                 /\ cs[i].x = model.ev[i].x /\ cs[i].o = model.ev[i].o
                 /\ cs[i].gl = model.ev[i].gl /\ cs[i].gc = model.ev[i].gc
            /\ r.out.end = model.end
    [] c = <<"DRIFT", "combined_stream_follows_CombineM">> ->
         LET model == CombineStream(t, r.columns, r.final)
         IN r.out.ev = model.ev /\ r.out.end = model.end
    [] c = <<"DRIFT", "decoder_follows_DecM">> -> SegsOf(r.out.dec) = DecodeM(r.m).out
    [] c = <<"DRIFT", "rope_repr_follows_RopeM">> ->
         LET same(e, o) ==
               LET m == ReprOf(e, r.pieces)
               IN m.kind = "ok" => ("repr" \in DOMAIN o /\ o.repr.full = m.full /\ o.repr.ps = m.ps)
         IN same(r.a, r.out.a) /\ same(r.b, r.out.b)
    [] c = <<"DRIFT", "tree_stream_follows_TreeC">> ->
         LET model == StreamC(t, r.columns, r.final, st.tc).s
             mine == StreamChunks(r.out.ev)
         IN /\ model.kind = "ok"
            /\ Len(model.chunks) = Len(mine)
            /\ \A i \in 1..Len(mine) :
                 /\ <<model.chunks[i].x, model.chunks[i].gl, model.chunks[i].gc>>
                      = <<mine[i].x, mine[i].gl, mine[i].gc>>
                 /\ Full(model.chunks[i].a) = Full(mine[i].a)
            /\ model.end = r.out.end
    [] c = <<"DRIFT", "tree_map_follows_TreeC">> ->
         LET model == MapC(t, r.columns, st.tc)
         IN model.ok /\ SegValsOfOptMapRaw(r.out.map) = SegValsOfOptMapRaw(model.m)
    [] c = <<"DRIFT", "tree_stream_follows_TreeM">> ->
         LET model == StreamV(t, r.columns, r.final)
             mine == StreamChunks(r.out.ev)
         IN /\ model.kind = "ok"
            /\ Len(model.chunks) = Len(mine)
            /\ \A i \in 1..Len(mine) :
                 /\ <<model.chunks[i].x, model.chunks[i].gl, model.chunks[i].gc>>
                      = <<mine[i].x, mine[i].gl, mine[i].gc>>
                 /\ Full(model.chunks[i].a) = Full(mine[i].a)
            /\ model.end = r.out.end
    [] c = <<"DRIFT", "hash_feed_follows_HashM">> -> r.out.feed = Blank(Feed(t))
    [] c = <<"DRIFT", "replace_index_follows_IndexM">> -> IxHolds(r, st)
    [] c = <<"DRIFT", "lock_refuses_as_modelled">> -> r.waited
    [] c = <<"DRIFT", "schedule_replayed">> ->
         /\ r.outcome = "completed"
         \* (the schedule of a probe program is only a prefix to steer by)
         /\ (r.schedule_len > 0 /\ ~r.probe) => (r.scheduled = r.schedule_len /\ r.extra = 0)
    [] c = <<"C19", "preconditions_hold">> -> r.probes.failed = <<>>
    [] c[1] = "C19" -> c[2] \notin ToSet(r.probes.failed)
    [] c[1] = "C16" -> C16Holds(c, r)
    [] c[1] = "C15" -> C15Holds(c, r)
    [] c[1] = "C14" -> C14Holds(c, r, st)
    [] c[1] = "C20" -> C20Holds(c, r, st)
    [] c[1] = "C12" -> C12Holds(c, r)
    [] c = <<"C09", "compose_columns">> -> ComposeColumnsOK(t, r.out.map)
    [] c = <<"C09", "compose_lines">> -> ComposeLinesOK(t, r.out.map)
    [] c = <<"C11", "map_indices_in_tables">> ->
         LET m == MapOf(r)
             segs == DecodeMappings(m.m)
         IN \A i \in 1..Len(segs) :
              segs[i].si < Len(m.sources) /\ segs[i].ni < Len(m.names)

-----------------------------------------------------------------------------
(* Known-finding classes.  A failing check is only ever DOWNGRADED to a     *)
(* KNOWN-FINDING line when known_findings.json lists the class returned     *)
(* here with status "known"; the class must describe the failing shape      *)
(* narrowly, so that any other violation is still reported.                 *)
CachedBeneathReplace(t) == CachedUnderReplace(t)

(* K4: a SourceMapSource with multi-byte text somewhere beneath a           *)
(* CachedSource                                                             *)
MultiByteCachedSms(t) ==
  /\ {"cached", "sms"} \subseteq Kinds(t)
  /\ ~IsAscii(TextOf(t))

(* two attribution sequences that differ at most in the original column     *)
OnlyColumnsDiffer(as, bs) ==
  /\ Len(as) = Len(bs)
  /\ \A i \in 1..Len(as) :
       <<as[i].m, as[i].f, as[i].l, as[i].hn, as[i].n>>
         = <<bs[i].m, bs[i].f, bs[i].l, bs[i].hn, bs[i].n>>

(* Without columns the cached lines-only map keeps one segment per inner    *)
(* line; which piece of a split line names the new output line then depends *)
(* on whether the cache was filled: for the cached-beneath-replace class no  *)
(* relation between the per-line attributions of two such answers is        *)
(* required beyond equal text / line count (generated positions and text are *)
(* checked by other predicates, which are not downgraded).                  *)
KF(c, r, st) ==
  CASE c = <<"C03", "map_equals_stream_columns">> ->
         LET chunks == StreamChunks(SeenStream(r, st).ev)
         IN IF CachedBeneathReplace(TreeOf(r, st))
               /\ OnlyColumnsDiffer(ByteAttrsOfOptMap(r.out.map, StreamText(chunks)),
                                    ByteAttrsOfStream(chunks))
              THEN "cached-beneath-replace-column" ELSE ""
    [] c = <<"C03", "map_equals_stream_lines">> ->
         LET chunks == StreamChunks(SeenStream(r, st).ev)
         IN IF CachedBeneathReplace(TreeOf(r, st))
               /\ Len(LineAttrsOfOptMap(r.out.map, StreamText(chunks))) = Len(LineAttrsOfStream(chunks))
              THEN "cached-beneath-replace-granularity" ELSE ""
    [] c = <<"C03", "none_iff_no_mapped_chunk">> ->
         IF CachedBeneathReplace(TreeOf(r, st)) /\ ~r.columns
           THEN "cached-beneath-replace-granularity" ELSE ""
    [] c = <<"C14", "equal_implies_same_answers">> ->
         LET text == st.obs[<<r.a, "source">>].t
         IN IF MultiByteCachedSms(st.heap[r.a]) /\ ~CachedBeneathReplace(st.heap[r.a])
               /\ st.obs[<<r.a, "source">>].t = st.obs[<<r.b, "source">>].t
               /\ \A col \in BOOLEAN :
                    (HasObs(st, <<r.a, "map", col>>) /\ HasObs(st, <<r.b, "map", col>>)) =>
                      LineAttrsOfOptMap(st.obs[<<r.a, "map", col>>].map, text)
                        = LineAttrsOfOptMap(st.obs[<<r.b, "map", col>>].map, text)
              THEN "multibyte-cached-sms-columns"
            ELSE IF CachedBeneathReplace(st.heap[r.a]) /\ ~AsciiConsistent(st.heap[r.a])
               /\ st.obs[<<r.a, "source">>].t = st.obs[<<r.b, "source">>].t
              THEN "cached-beneath-replace-granularity"
            ELSE IF
               /\ CachedBeneathReplace(st.heap[r.a])
               /\ st.obs[<<r.a, "source">>].t = st.obs[<<r.b, "source">>].t
               /\ ((HasObs(st, <<r.a, "map", FALSE>>) /\ HasObs(st, <<r.b, "map", FALSE>>)) =>
                    Len(LineAttrsOfOptMap(st.obs[<<r.a, "map", FALSE>>].map, text))
                      = Len(LineAttrsOfOptMap(st.obs[<<r.b, "map", FALSE>>].map, text)))
               /\ ((HasObs(st, <<r.a, "map", TRUE>>) /\ HasObs(st, <<r.b, "map", TRUE>>)) =>
                    OnlyColumnsDiffer(ByteAttrsOfOptMap(st.obs[<<r.a, "map", TRUE>>].map, text),
                                      ByteAttrsOfOptMap(st.obs[<<r.b, "map", TRUE>>].map, text)))
              THEN "cached-beneath-replace-granularity" ELSE ""
    [] c = <<"C14", "observer_repeatable">> ->
         LET t == st.heap[r.r]
             text == TextOf(t)
         IN IF MultiByteCachedSms(t) /\ ~CachedBeneathReplace(t) /\ r.op = "map" /\ r.columns
               /\ LineAttrsOfOptMap(r.out.map, text) = LineAttrsOfOptMap(st.obs[ObsKey(r)].map, text)
              THEN "multibyte-cached-sms-columns"
            ELSE IF CachedBeneathReplace(t) /\ r.op \in {"map", "stream"} /\ ~AsciiConsistent(t)
              THEN "cached-beneath-replace-granularity"
            ELSE IF
               /\ CachedBeneathReplace(t) /\ r.op \in {"map", "stream"}
               /\ (r.op = "map" /\ r.columns =>
                      OnlyColumnsDiffer(ByteAttrsOfOptMap(r.out.map, text),
                                        ByteAttrsOfOptMap(st.obs[ObsKey(r)].map, text)))
               /\ (r.op = "map" /\ ~r.columns => TRUE)
               /\ (r.op = "stream" =>
                      /\ StreamText(StreamChunks(r.out.ev)) = StreamText(StreamChunks(st.obs[ObsKey(r)].ev))
                      /\ r.out.end = st.obs[ObsKey(r)].end
                      /\ IF r.columns
                           THEN OnlyColumnsDiffer(ByteAttrsOfStream(StreamChunks(r.out.ev)),
                                                  ByteAttrsOfStream(StreamChunks(st.obs[ObsKey(r)].ev)))
                           ELSE TRUE)
              THEN "cached-beneath-replace-granularity" ELSE ""
    [] c = <<"C20", "different_observables_different_hash">> ->
         \* K3: the two trees feed the Hasher the same calls (HashM) and would not if a
         \* ConcatSource fed the number of its children
         LET ta == st.heap[r.a]
             tb == st.heap[r.b]
         IN IF HashModelled(ta) /\ HashModelled(tb) /\ Feed(ta) = Feed(tb)
               /\ FeedDelimited(ta) # FeedDelimited(tb)
              THEN "concat-children-not-delimited" ELSE ""
    [] c = <<"C13", "same_attribution_columns">> ->
         LET text == Seen(st, r.a, "source").t
             tb == st.heap[r.b]
         IN IF /\ tb.k = "replace" /\ Len(tb.repls) >= 1
               /\ \A i \in 1..Len(tb.repls) :
                    tb.repls[i].s = tb.repls[i].e /\ tb.repls[i].c = <<>>
               /\ OnlyColumnsDiffer(ByteAttrsOfOptMap(SeenMap(st, r.a, TRUE), text),
                                    ByteAttrsOfOptMap(SeenMap(st, r.b, TRUE), text))
              THEN "noop-replacement-splits-chunk" ELSE ""
    [] OTHER -> ""
=============================================================================
