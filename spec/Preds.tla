-------------------------------- MODULE Preds -------------------------------
(***************************************************************************)
(* The object machine as seen by trace validation: its state, how each      *)
(* recorded call changes it (NextState), which property predicates apply    *)
(* to a record (Checks) and what they say (Holds).  A check is a pair       *)
(* <<property id, predicate name>>.                                         *)
(***************************************************************************)
EXTENDS Naturals, Integers, Sequences, FiniteSets, SequencesExt,
        FiniteSetsExt, Functions, TLC, Text, Vlq, SMap, Sem

NREG == 16
EmptyHeap == [i \in 0..(NREG - 1) |-> Nil]

InitState == [heap |-> EmptyHeap]

Ok(r) == r.oc = "ok"

-----------------------------------------------------------------------------
(* actions                                                                  *)
NextState(r, st) ==
  CASE r.op = "begin" -> InitState
    [] r.op = "build" /\ Ok(r) ->
         [st EXCEPT !.heap[r.dst] = Close(r.tree, st.heap)]
    [] r.op = "clone" /\ Ok(r) ->
         [st EXCEPT !.heap[r.dst] = st.heap[r.src]]
    [] r.op = "replace" /\ Ok(r) ->
         [st EXCEPT !.heap[r.r].repls =
            Append(@, [s |-> r.s, e |-> r.e, c |-> r.c, n |-> r.n,
                       enf |-> r.enf, api |-> r.api])]
    [] r.op = "add" /\ Ok(r) ->
         LET t == st.heap[r.r]
             a == Close(r.tree, st.heap)
         IN [st EXCEPT !.heap[r.r] =
               IF "adds" \in DOMAIN t
                 THEN [t EXCEPT !.adds = Append(@, a)]
                 ELSE [x \in DOMAIN t \cup {"adds"} |->
                         IF x = "adds" THEN <<a>> ELSE t[x]]]
    [] OTHER -> st

-----------------------------------------------------------------------------
(* helpers over stream records                                              *)
IsChunk(e) == e.t = "C"
ChunksOf(r) == SelectSeq(r.out.ev, IsChunk)
ChunkText(e) == IF e.x = <<>> THEN <<>> ELSE e.x[1]
Assembled(cs) == Concat([i \in 1..Len(cs) |-> ChunkText(cs[i])])

(* offsets[i] = number of bytes delivered before chunk i                    *)
Offsets(cs) ==
  LET step(acc, e) == <<Append(acc[1], acc[2]), acc[2] + Len(ChunkText(e))>>
  IN FoldLeft(step, <<<<>>, 0>>, cs)[1]

(* announce-before-use and density of indices in one stream                 *)
AnnounceOK(evs) ==
  LET step(acc, e) ==
        LET srcs == acc[1]
            names == acc[2]
            ok == acc[3]
        IN CASE e.t = "S" ->
                  <<srcs \cup {e.i}, names,
                    ok /\ (e.i \in srcs \/ e.i = Cardinality(srcs))>>
             [] e.t = "N" ->
                  <<srcs, names \cup {e.i},
                    ok /\ (e.i \in names \/ e.i = Cardinality(names))>>
             [] OTHER ->
                  <<srcs, names,
                    ok /\ (e.o = <<>> \/
                           (e.o[1] \in srcs /\ (e.o[4] = -1 \/ e.o[4] \in names)))>>
  IN FoldLeft(step, <<{}, {}, TRUE>>, evs)[3]

MapOf(r) == r.out.map[1]

-----------------------------------------------------------------------------
(* which predicates apply to a record                                       *)
TreeOf(r, st) == st.heap[r.r]

Checks(r, st) ==
  IF r.op \in {"begin", "end", "config"} THEN {}
  ELSE IF r.op = "died" THEN {<<"C17", "no_abort_or_hang">>}
  ELSE IF r.oc = "harness" THEN {<<"TOOL", "harness_error">>}
  ELSE IF ~Ok(r) THEN {<<"C17", "no_panic">>}
  ELSE {<<"C17", "no_panic">>} \cup
    CASE r.op = "source" ->
           {<<"C07", "source_is_text">>} \cup
           (IF "replace" \in Kinds(TreeOf(r, st))
              THEN {<<"C05", "source_is_splice">>} ELSE {})
      [] r.op = "buffer" -> {<<"C07", "buffer">>}
      [] r.op = "size" -> {<<"C07", "size_is_buffer_len">>}
      [] r.op = "rope" ->
           {<<"C07", "rope_renders_to_text">>} \cup
           (IF "replace" \in Kinds(TreeOf(r, st))
              THEN {<<"C05", "rope_is_splice">>} ELSE {})
      [] r.op = "writer" -> {<<"C07", "writer">>}
      [] r.op = "stream" ->
           LET dom == AsciiConsistent(TreeOf(r, st))
           IN (IF ~r.final
                 THEN {<<"C01", "chunks_have_text">>, <<"C01", "reassemble">>}
                 ELSE {})
              \cup (IF dom /\ ~r.final THEN {<<"C02", "chunk_positions">>} ELSE {})
              \cup (IF dom THEN {<<"C02", "end_position">>} ELSE {})
              \cup (IF dom /\ r.final THEN {<<"C02", "final_positions_in_text">>} ELSE {})
              \cup (IF dom THEN {<<"C11", "announce_before_use">>} ELSE {})
      [] r.op = "map" ->
           IF AsciiConsistent(TreeOf(r, st)) /\ r.out.map # <<>>
             THEN {<<"C11", "map_charset">>, <<"C11", "map_well_formed">>,
                   <<"C11", "map_strictly_increasing">>,
                   <<"C11", "map_inside_text">>, <<"C11", "map_indices_in_tables">>}
             ELSE {}
      [] OTHER -> {}

-----------------------------------------------------------------------------
(* what the predicates say                                                  *)
Holds(c, r, st) ==
  LET t == TreeOf(r, st) IN
  CASE c[1] = "TOOL" -> FALSE
    [] c = <<"C17", "no_abort_or_hang">> -> FALSE
    [] c = <<"C17", "no_panic">> -> Ok(r)
    [] c = <<"C07", "source_is_text">> -> r.out.t = TextOf(t)
    [] c = <<"C05", "source_is_splice">> -> r.out.t = TextOf(t)
    [] c = <<"C07", "buffer">> -> r.out.b = BufOf(t)
    [] c = <<"C07", "size_is_buffer_len">> -> r.out.n = Len(BufOf(t))
    [] c = <<"C07", "rope_renders_to_text">> ->
         r.out.t = TextOf(t) /\ r.out.b = TextOf(t) /\ r.out.n = Len(TextOf(t))
    [] c = <<"C05", "rope_is_splice">> -> r.out.t = TextOf(t)
    [] c = <<"C07", "writer">> ->
         LET buf == BufOf(t)
         IN /\ IsPrefix(r.out.w, buf)
            /\ r.out.res = "ok" => r.out.w = buf
            /\ r.kind \in {"ok", "intr", "chunky"} => r.out.res = "ok"
            /\ (r.kind \in {"err", "zero"} /\ r.k < Len(buf)) => r.out.res = "err"
    [] c = <<"C01", "chunks_have_text">> ->
         \A i \in 1..Len(r.out.ev) :
           r.out.ev[i].t = "C" => r.out.ev[i].x # <<>>
    [] c = <<"C01", "reassemble">> -> Assembled(ChunksOf(r)) = TextOf(t)
    [] c = <<"C02", "chunk_positions">> ->
         LET cs == ChunksOf(r)
             pt == PosTable(Assembled(cs))
             off == Offsets(cs)
         IN \A i \in 1..Len(cs) : <<cs[i].gl, cs[i].gc>> = pt[off[i] + 1]
    [] c = <<"C02", "end_position">> -> r.out.end = EndPos(TextOf(t))
    [] c = <<"C02", "final_positions_in_text">> ->
         LET cs == ChunksOf(r)
             ps == CharPositions(TextOf(t))
         IN \A i \in 1..Len(cs) : <<cs[i].gl, cs[i].gc>> \in ps
    [] c = <<"C11", "announce_before_use">> -> AnnounceOK(r.out.ev)
    [] c = <<"C11", "map_charset">> ->
         \A i \in 1..Len(MapOf(r).m) : IsMappingsChar(MapOf(r).m[i])
    [] c = <<"C11", "map_well_formed">> -> WellFormedMappings(MapOf(r).m)
    [] c = <<"C11", "map_strictly_increasing">> ->
         StrictlySortedSegs(DecodeMappings(MapOf(r).m))
    [] c = <<"C11", "map_inside_text">> ->
         LET segs == DecodeMappings(MapOf(r).m)
             end == EndPos(TextOf(t))
         IN \A i \in 1..Len(segs) :
              segs[i].gl >= 1 /\ PosLt(<<segs[i].gl, segs[i].gc>>, end)
    [] c = <<"C11", "map_indices_in_tables">> ->
         LET m == MapOf(r)
             segs == DecodeMappings(m.m)
         IN \A i \in 1..Len(segs) :
              segs[i].si < Len(m.sources) /\ segs[i].ni < Len(m.names)
=============================================================================
