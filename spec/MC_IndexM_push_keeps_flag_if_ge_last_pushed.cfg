SPECIFICATION Spec
CONSTANTS
  Keys = {1, 2, 3}
  Objs = {o1, o2}
  MaxCalls = 4
  Variant = "push_keeps_flag_if_ge_last_pushed"
INVARIANTS TypeOK FlagMeansCurrent ObserversSeeStableOrder EqualCallsEqualAnswers
CHECK_DEADLOCK FALSE
