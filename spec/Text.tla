-------------------------------- MODULE Text --------------------------------
(***************************************************************************)
(* Texts are sequences of bytes (0..255).  Positions are <<line, column>>  *)
(* with 1-based lines and 0-based columns, exactly as the library reports  *)
(* them.  Everything here is a pure operator: this is the bottom of the     *)
(* denotational layer against which recorded behaviour is judged.           *)
(***************************************************************************)
EXTENDS Naturals, Integers, Sequences, FiniteSets, SequencesExt, FiniteSetsExt

NL == 10

Take(t, n) == SubSeq(t, 1, n)
Drop(t, n) == SubSeq(t, n + 1, Len(t))

Concat(ss) == FlattenSeq(ss)

NLIdx(t) == {i \in 1..Len(t) : t[i] = NL}
CountNL(t) == Cardinality(NLIdx(t))
LastNL(t) == IF NLIdx(t) = {} THEN 0 ELSE Max(NLIdx(t))

(* the position just after the last byte of t *)
EndPos(t) == <<1 + CountNL(t), Len(t) - LastNL(t)>>

(* PosTable(t)[i] = position of byte i, PosTable(t)[Len(t)+1] = EndPos(t) *)
PosTable(t) ==
  LET step(acc, b) ==
        <<Append(acc[1], <<acc[2], acc[3]>>),
          IF b = NL THEN acc[2] + 1 ELSE acc[2],
          IF b = NL THEN 0 ELSE acc[3] + 1>>
      r == FoldLeft(step, <<<<>>, 1, 0>>, t)
  IN Append(r[1], <<r[2], r[3]>>)

PosOf(t, i) == EndPos(Take(t, i - 1))

PosLt(p, q) == p[1] < q[1] \/ (p[1] = q[1] /\ p[2] < q[2])
PosLe(p, q) == p = q \/ PosLt(p, q)

(* the set of positions at which a byte of t sits *)
CharPositions(t) == LET pt == PosTable(t) IN {pt[i] : i \in 1..Len(t)}

(* lines of t, terminators kept; the empty text has no lines *)
Lines(t) ==
  LET idx == SetToSortSeq(NLIdx(t), <)
      n == Len(idx)
      full == [k \in 1..n |->
                 SubSeq(t, IF k = 1 THEN 1 ELSE idx[k - 1] + 1, idx[k])]
      tailStart == IF n = 0 THEN 1 ELSE idx[n] + 1
  IN IF tailStart <= Len(t)
       THEN Append(full, SubSeq(t, tailStart, Len(t)))
       ELSE full

IsAscii(t) == \A i \in 1..Len(t) : t[i] < 128

-----------------------------------------------------------------------------
(* UTF-8.  Walk(t, i) describes the scalar value starting at byte i:        *)
(* <<ok, n>>: a well-formed sequence of n bytes, or an ill-formed one whose *)
(* maximal valid prefix has n >= 1 bytes (the unit that lossy decoding      *)
(* replaces by one U+FFFD, per the Unicode "maximal subpart" rule that      *)
(* String::from_utf8_lossy documents).                                      *)
IsCont(b) == b >= 128 /\ b <= 191

Walk(t, i) ==
  LET b == t[i]
      has(k) == i + k <= Len(t)
      at(k) == t[i + k]
      second(lo, hi) == has(1) /\ at(1) >= lo /\ at(1) <= hi
      contAt(k) == has(k) /\ IsCont(at(k))
  IN CASE b < 128 -> <<TRUE, 1>>
       [] b >= 194 /\ b <= 223 ->
            IF contAt(1) THEN <<TRUE, 2>> ELSE <<FALSE, 1>>
       [] b >= 224 /\ b <= 239 ->
            LET lo == IF b = 224 THEN 160 ELSE 128
                hi == IF b = 237 THEN 159 ELSE 191
            IN IF ~second(lo, hi) THEN <<FALSE, 1>>
               ELSE IF contAt(2) THEN <<TRUE, 3>> ELSE <<FALSE, 2>>
       [] b >= 240 /\ b <= 244 ->
            LET lo == IF b = 240 THEN 144 ELSE 128
                hi == IF b = 244 THEN 143 ELSE 191
            IN IF ~second(lo, hi) THEN <<FALSE, 1>>
               ELSE IF ~contAt(2) THEN <<FALSE, 2>>
               ELSE IF contAt(3) THEN <<TRUE, 4>> ELSE <<FALSE, 3>>
       [] OTHER -> <<FALSE, 1>>

FFFD == <<239, 191, 189>>

RECURSIVE LossyFrom(_, _)
LossyFrom(t, i) ==
  IF i > Len(t) THEN <<>>
  ELSE LET w == Walk(t, i)
       IN (IF w[1] THEN SubSeq(t, i, i + w[2] - 1) ELSE FFFD)
            \o LossyFrom(t, i + w[2])

Lossy(t) == LossyFrom(t, 1)

RECURSIVE ValidFrom(_, _)
ValidFrom(t, i) ==
  IF i > Len(t) THEN TRUE
  ELSE LET w == Walk(t, i) IN w[1] /\ ValidFrom(t, i + w[2])

IsUtf8(t) == ValidFrom(t, 1)

(* byte offsets (0-based, 0..Len) that lie on a character boundary *)
RECURSIVE BoundariesFrom(_, _)
BoundariesFrom(t, i) ==
  IF i > Len(t) THEN {Len(t)}
  ELSE {i - 1} \cup BoundariesFrom(t, i + Walk(t, i)[2])

Boundaries(t) == BoundariesFrom(t, 1)
=============================================================================
