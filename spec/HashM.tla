-------------------------------- MODULE HashM --------------------------------
(***************************************************************************)
(* Implementation-shaped model of hashing (property C20, hashing part of    *)
(* C14): what each `impl Hash` of the crate feeds to the Hasher, as the     *)
(* sequence of Hasher calls it makes                                        *)
(* it makes, one token <<kind, number, bytes, nested feed>> per call:        *)
(*   "w" write(bytes)   "u8" write_u8   "u32" write_u32                      *)
(*   "usize" write_usize (length prefix)   "isize" write_isize (discriminant)*)
(*   "u64" write_u64 of the memoised FxHash of the nested feed               *)
(* (str: write + 0xff; [u8] and [String]: length prefix first; Option and   *)
(* ReplacementEnforce: discriminant first).  The harness records the calls  *)
(* the real code makes on a recording Hasher; Preds compares them with      *)
(* Feed(tree) (MODEL-DRIFT when they differ).                               *)
(*                                                                         *)
(* MC_HashM checks the design: two trees with the same feed have the same   *)
(* hash under every Hasher, so the feed must separate trees with different  *)
(* observables.  It does not: a ConcatSource feeds its children without a   *)
(* count or an end marker, so the end of a ConcatSource that is the inner   *)
(* source of a ReplaceSource cannot be told from the siblings that follow   *)
(* the ReplaceSource in an enclosing ConcatSource (finding K3).  With       *)
(* Delimit = TRUE the model feeds the number of children first; TLC then    *)
(* finds no two trees of the scope with equal feeds and different           *)
(* observables, which is how the known-finding class is kept narrow: a      *)
(* colliding pair is K3 only if the delimited feeds differ.                 *)
(***************************************************************************)
EXTENDS Naturals, Integers, Sequences, FiniteSets, SequencesExt, Text, Sem

TagRawSource == <<82, 97, 119, 83, 111, 117, 114, 99, 101>>
TagRawStringSource == <<82, 97, 119, 83, 116, 114, 105, 110, 103, 83, 111, 117, 114, 99, 101>>
TagRawBufferSource == <<82, 97, 119, 66, 117, 102, 102, 101, 114, 83, 111, 117, 114, 99, 101>>
TagOriginalSource == <<79, 114, 105, 103, 105, 110, 97, 108, 83, 111, 117, 114, 99, 101>>
TagSourceMapSource == <<83, 111, 117, 114, 99, 101, 77, 97, 112, 83, 111, 117, 114, 99, 101>>
TagConcatSource == <<67, 111, 110, 99, 97, 116, 83, 111, 117, 114, 99, 101>>
TagReplaceSource == <<82, 101, 112, 108, 97, 99, 101, 83, 111, 117, 114, 99, 101>>

Tok(kind, n, b, sub) == <<kind, n, b, sub>>
Str(b) == <<Tok("w", 0, b, <<>>), Tok("u8", 255, <<>>, <<>>)>>
Bytes(b) == <<Tok("usize", Len(b), <<>>, <<>>), Tok("w", 0, b, <<>>)>>
U32(n) == <<Tok("u32", n, <<>>, <<>>)>>
Disc(n) == <<Tok("isize", n, <<>>, <<>>)>>
Bool(b) == <<Tok("u8", IF b THEN 1 ELSE 0, <<>>, <<>>)>>
USize(n) == <<Tok("usize", n, <<>>, <<>>)>>
Strs(ss) == USize(Len(ss)) \o Concat([i \in 1..Len(ss) |-> Str(ss[i])])
OptStr(o) == IF o = <<>> THEN Disc(0) ELSE Disc(1) \o Str(o[1])

(* SourceMap: file, mappings, sources, sourcesContent, names, sourceRoot,    *)
(* and the debug id only when there is one                                  *)
MapFeed(m) ==
  OptStr(m.file) \o Str(m.m) \o Strs(m.sources) \o Strs(m.contents) \o Strs(m.names)
  \o OptStr(m.root) \o (IF m.dbg = <<>> THEN <<>> ELSE Str(m.dbg[1]))
OptMap(o) == IF o = <<>> THEN Disc(0) ELSE Disc(1) \o MapFeed(o[1])

ReplFeed(r) == U32(r.s) \o U32(r.e) \o Str(r.c) \o OptStr(r.n) \o Disc(r.enf)

RawTag(sub) ==
  CASE sub = "rawstr" -> TagRawStringSource
    [] sub = "rawbuf" -> TagRawBufferSource
    [] OTHER -> TagRawSource

(* the children a ConcatSource really holds: `new` over ConcatSource values *)
(* and `add` of a ConcatSource splice the children in; a boxed ConcatSource *)
(* stays one child                                                          *)
RECURSIVE HChildren(_)
HChildren(t) ==
  LET base == IF t.mode = "typed" /\ \A i \in 1..Len(t.ch) : t.ch[i].k = "concat"
                THEN Concat([i \in 1..Len(t.ch) |-> HChildren(t.ch[i])])
                ELSE t.ch
      adds == Field(t, "adds", <<>>)
  IN base \o Concat([i \in 1..Len(adds) |->
                       IF adds[i].k = "concat" THEN HChildren(adds[i]) ELSE <<adds[i]>>])

RECURSIVE FeedV(_, _)
FeedV(delimit, t) ==
  CASE t.k = "raw" -> Str(RawTag(t.sub)) \o Bytes(t.b)
    [] t.k = "orig" -> Str(TagOriginalSource) \o Bytes(t.b) \o Str(t.name)
    [] t.k = "sms" ->
         Str(TagSourceMapSource) \o Bytes(t.b) \o MapFeed(t.map) \o OptStr(t.osrc)
         \o OptMap(t.inner) \o Bool(t.remove)
    [] t.k = "concat" ->
         LET ch == HChildren(t)
         IN Str(TagConcatSource) \o (IF delimit THEN USize(Len(ch)) ELSE <<>>)
            \o Concat([i \in 1..Len(ch) |-> FeedV(delimit, ch[i])])
    [] t.k = "replace" ->
         LET ord == StableOrder(t.repls)
         IN Str(TagReplaceSource) \o Concat([i \in 1..Len(ord) |-> ReplFeed(t.repls[ord[i]])])
            \o FeedV(delimit, t.inner)
    [] t.k = "cached" -> <<Tok("u64", 0, <<>>, FeedV(delimit, t.inner))>>
    [] t.k = "box" -> FeedV(delimit, t.inner)

Feed(t) == FeedV(FALSE, t)
FeedDelimited(t) == FeedV(TRUE, t)
HashModelled(t) == Kinds(t) \subseteq {"raw", "orig", "sms", "concat", "replace", "cached", "box"}

(* what the harness can record of a feed: the nested feed behind a u64 (a  *)
(* real hash value) is not visible                                          *)
Blank(feed) == [i \in 1..Len(feed) |-> Tok(feed[i][1], feed[i][2], feed[i][3], <<>>)]
=============================================================================
