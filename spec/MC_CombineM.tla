------------------------------ MODULE MC_CombineM ----------------------------
EXTENDS CombineM, Compose, TLC

cA == 97
cB == 98
cSP == 32
cSC == 59
FileA == <<97, 46, 106, 115>>
FileB == <<98, 46, 106, 115>>
ContentA == <<97, 97, 59, 10, 97, 59>>      \* "aa;\na;"
ContentB == <<97, 32, 97>>                  \* "a a"
Name0 == <<110, 48>>
Name1 == <<110, 49>>
NameAA == <<cA, cA>>
InnerName == <<105, 46, 106, 115>>
InnerX == <<120, 121, cSC, NL, 122>>       \* "xy;\nz"
Seg(gl, gc, o) == [gl |-> gl, gc |-> gc, si |-> o[1], ol |-> o[2], oc |-> o[3], ni |-> o[4]]

OuterOrigs == {<<-1, 0, 0, -1>>, <<0, 1, 0, -1>>, <<0, 1, 1, 0>>, <<0, 2, 0, -1>>, <<1, 1, 0, -1>>, <<0, 1, 2, 1>>}
InnerOrigs == {<<-1, 0, 0, -1>>, <<0, 1, 0, -1>>, <<1, 1, 1, -1>>, <<0, 2, 1, 0>>}

SegListsOver(t, n, O) ==
  LET pt == PosTable(t)
      subsets == {I \in SUBSET (1..Len(t)) : Cardinality(I) <= n}
  IN UNION {
       LET is == SetToSortSeq(I, <)
       IN {[j \in 1..Len(is) |-> Seg(pt[is[j]][1], pt[is[j]][2], f[j])] :
             f \in [1..Len(is) -> O]}
       : I \in subsets}

Sms(t, osegs, isegs, withOsrc, remove) ==
  [k |-> "sms", b |-> t, name |-> InnerName,
   map |-> [m |-> EncodeSegs(osegs), sources |-> <<InnerName, FileA>>,
            contents |-> IF withOsrc THEN <<<<>>, ContentA>> ELSE <<InnerX, ContentA>>,
            names |-> <<NameAA, Name1>>, root |-> <<>>, file |-> <<>>, dbg |-> <<>>],
   inner |-> <<[m |-> EncodeSegs(isegs), sources |-> <<FileA, FileB>>,
               contents |-> <<ContentA, ContentB>>, names |-> <<Name0>>,
               root |-> <<>>, file |-> <<>>, dbg |-> <<>>]>>,
   osrc |-> IF withOsrc THEN <<InnerX>> ELSE <<>>,
   remove |-> remove]

T1 == <<cA, cB>>
T2 == <<cA, cSP, cB, NL, cA, cB>>

VARIABLES t
Init ==
  \/ t \in {Sms(T1, o, i, TRUE, FALSE) : o \in SegListsOver(T1, 2, OuterOrigs), i \in SegListsOver(InnerX, 2, InnerOrigs)}
  \/ t \in {Sms(T2, o, i, w, rm) : o \in SegListsOver(T2, 1, OuterOrigs), i \in SegListsOver(InnerX, 1, InnerOrigs),
                                   w \in BOOLEAN, rm \in BOOLEAN}
Next == UNCHANGED t
Spec == Init /\ [][Next]_t

DesignOK ==
  LET cn == CombineStream(t, TRUE, FALSE)
      ln == CombineStream(t, FALSE, FALSE)
      chunksC == StreamChunks(cn.ev)
      chunksL == StreamChunks(ln.ev)
      outer == ByteAttrsOfMap(t.map, t.b)
      got == ByteAttrsOfStream(chunksC)
      osegs == DecodeMappings(t.map.m)
      inner == t.inner[1]
      isegs == DecodeMappings(inner.m)
      gotL == LineAttrsOfStream(chunksL)
      expected(ln2) ==
        LET o == ResolveLine(t.map, osegs, ln2)
        IN IF ~o.m THEN LineOnly(Unmapped)
           ELSE IF o.f # t.name THEN LineOnly(o)
           ELSE LET a == ResolveLine(inner, isegs, o.l)
                IN IF a.m THEN LineOnly(a)
                   ELSE IF t.remove THEN LineOnly(Unmapped)
                   ELSE <<TRUE, t.name, o.l>>
  IN /\ C09Domain(t)
     /\ StreamText(chunksC) = t.b /\ StreamText(chunksL) = t.b
     /\ cn.end = EndPos(t.b)
     /\ \A i \in 1..Len(t.b) : ComposeOK(t, outer[i], got[i])
     /\ \A l \in 1..NumLines(t.b) : gotL[l] = expected(l)
=============================================================================
