SPECIFICATION Spec
INVARIANT ColumnsOnly
CHECK_DEADLOCK FALSE
