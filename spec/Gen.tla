--------------------------------- MODULE Gen --------------------------------
(***************************************************************************)
(* TLC as exhaustive generator of small-scope programs (spec -> impl).      *)
(* A scope is a finite set of programs defined below; TLC enumerates it     *)
(* completely (one initial state per program) and prints each program as    *)
(* one JSON line, which the harness replays against the real crate.         *)
(*   env SCOPE selects the scope.                                           *)
(***************************************************************************)
EXTENDS Naturals, Integers, Sequences, FiniteSets, SequencesExt,
        FiniteSetsExt, TLC, Json, IOUtils, Text, Vlq, VlqW, IoScripts

Scope == IOEnv.SCOPE

cA == 97
cX == 120
cB == 98
cSC == 59
cSP == 32

Sigma4 == {cA, cSC, NL, cSP}

Seqs(S, n) == UNION {[1..k -> S] : k \in 0..n}

T3 ==
  IF Scope \notin {"c01","c02"} THEN {} ELSE
 Seqs(Sigma4, 3)
T2 == Seqs(Sigma4, 2)
(* a slim set of texts for the insides of composites: empty, one char,      *)
(* trailing / leading / inner line break, statement border                  *)
TSlim == {<<>>, <<cA>>, <<NL>>, <<cA, NL>>, <<NL, cA>>, <<cA, cSC>>,
          <<cA, NL, cA>>, <<cSC, cSP, cA>>, <<cA, NL, NL>>}

-----------------------------------------------------------------------------
(* names are byte strings                                                   *)
S(str) == str    \* (documentation only)
FileA == <<97, 46, 106, 115>>        \* a.js
FileB == <<98, 46, 106, 115>>        \* b.js
ContentA == <<97, 97, 59, 10, 97, 59>>      \* "aa;\na;"
ContentB == <<97, 32, 97>>                  \* "a a"
Name0 == <<110, 48>>                 \* n0
Name1 == <<110, 49>>                 \* n1
GenName == <<103, 46, 106, 115>>     \* g.js

(* injective file name for an OriginalSource with text t                    *)
OName(t) ==
  <<111>> \o [i \in 1..Len(t) |->
               CASE t[i] = cA -> 97 [] t[i] = cSC -> 115 [] t[i] = NL -> 110
                 [] t[i] = cSP -> 112 [] OTHER -> 120]

Raw(sub, t) == [k |-> "raw", sub |-> sub, b |-> t]
Orig(t) == [k |-> "orig", b |-> t, name |-> OName(t)]

MapOf(segs, root) ==
  [m |-> EncodeSegs(segs), sources |-> <<FileA, FileB>>,
   contents |-> <<ContentA, ContentB>>, names |-> <<Name0, Name1>>,
   root |-> root, file |-> <<>>, dbg |-> <<>>]

Sms(t, segs) ==
  [k |-> "sms", b |-> t, name |-> GenName, map |-> MapOf(segs, <<>>),
   inner |-> <<>>, osrc |-> <<>>, remove |-> FALSE]

Seg(gl, gc, o) == [gl |-> gl, gc |-> gc, si |-> o[1], ol |-> o[2], oc |-> o[3], ni |-> o[4]]

(* original locations used in small maps: unmapped, plain, named, other file *)
Origs == {<<-1, 0, 0, -1>>, <<0, 1, 0, -1>>, <<0, 2, 1, 0>>, <<1, 1, 2, -1>>}

(* all strictly sorted segment lists with <= n segments sitting on          *)
(* characters of t                                                          *)
SegLists(t, n) ==
  LET pt == PosTable(t)
      idx == 1..Len(t)
      subsets == {I \in SUBSET idx : Cardinality(I) <= n}
  IN UNION {
       LET is == SetToSortSeq(I, <)
       IN {[j \in 1..Len(is) |-> Seg(pt[is[j]][1], pt[is[j]][2], f[j])] :
             f \in [1..Len(is) -> Origs]}
       : I \in subsets}

SmsLeaves(T, n) == UNION {{Sms(t, sl) : sl \in SegLists(t, n)} : t \in T}

CC(ch) == [k |-> "concat", mode |-> "boxed", ch |-> ch]
Replace(inner, repls) == [k |-> "replace", inner |-> inner, repls |-> repls]
Cached(inner) == [k |-> "cached", cid |-> 1, inner |-> inner]
Box(inner) == [k |-> "box", inner |-> inner]

Repl(s, e, c) == [s |-> s, e |-> e, c |-> c, n |-> <<>>, enf |-> 1, api |-> "replace"]

ReplContents == {<<>>, <<cX>>, <<NL>>}

(* all single replacements over a text of length n (positions up to n + 1)  *)
Repls1Ok(n) ==
  {<<Repl(p[1], p[2], c)>> :
     p \in {q \in (0..(n + 1)) \X (0..(n + 1)) : q[1] <= q[2]},
     c \in ReplContents}

Repls2(n) ==
  {r1 \o r2 : r1 \in Repls1Ok(n), r2 \in Repls1Ok(n)}

-----------------------------------------------------------------------------
(* tree families                                                            *)
LeavesRich ==
  IF Scope \notin {"c01","c02"} THEN {} ELSE
  {Raw("str", t) : t \in T3} \cup {Orig(t) : t \in T3} \cup SmsLeaves(T2, 2)

LeavesSlim ==
  IF Scope \notin {"c01","c02","c07","c17"} THEN {} ELSE
  {Raw("str", t) : t \in TSlim} \cup {Orig(t) : t \in TSlim}
  \cup SmsLeaves({<<cA, NL, cA>>, <<cA, cA>>}, 1)

TextLen(t) == Len(t.b)

Pairs ==  IF Scope \notin {"c01","c02","c07","c17"} THEN {} ELSE
 {CC(<<a, b>>) : a \in LeavesSlim, b \in LeavesSlim}

ReplOverLeaf1 ==
  IF Scope \notin {"c01","c02"} THEN {} ELSE
  UNION {{Replace(x, r) : r \in Repls1Ok(TextLen(x))} :
           x \in {Raw("str", t) : t \in T3} \cup {Orig(t) : t \in T3}
                 \cup SmsLeaves({<<cA, NL, cA>>, <<cA, cA, cA>>}, 2)}

ReplOverLeaf2 ==
  IF Scope \notin {"c01","c02","c07","c17"} THEN {} ELSE
  UNION {{Replace(x, r) : r \in Repls2(TextLen(x))} :
           x \in {Orig(t) : t \in {<<cA, NL, cA>>, <<cA, cSC, cA>>, <<NL, cA>>, <<cA, NL>>}}
                 \cup {Raw("str", <<cA, NL, cA>>)}}

SlimPairs ==
  LET L == {Raw("str", <<cA>>), Raw("str", <<cA, NL>>), Orig(<<cA>>),
            Orig(<<cA, NL>>), Orig(<<NL, cA>>), Raw("str", <<>>)}
  IN {CC(<<a, b>>) : a \in L, b \in L}

ReplOverPair ==
  IF Scope \notin {"c01","c02"} THEN {} ELSE
  UNION {{Replace(x, r) : r \in Repls1Ok(TextLen(x.ch[1]) + TextLen(x.ch[2]))} :
           x \in SlimPairs}

Wrapped ==
  IF Scope \notin {"c01","c02","c07","c17"} THEN {} ELSE
  LET X == SlimPairs \cup {Replace(Orig(<<cA, NL, cA>>), <<Repl(1, 2, <<cX>>)>>)}
               \cup {Orig(t) : t \in TSlim}
  IN {Cached(x) : x \in X} \cup {Box(x) : x \in X}
     \cup {CC(<<Cached(x), Raw("str", <<cA>>)>>) : x \in X}
     \cup {CC(<<Raw("str", <<cA>>), Box(x)>>) : x \in X}
     \cup {Replace(Cached(x), <<Repl(0, 1, <<cX>>)>>) : x \in X}

(* many-piece ropes reach the line splitter when a CachedSource replays     *)
(* (its rope has one piece per child) and when a ReplaceSource joins the     *)
(* replacements left over after its inner text: every way to put a line     *)
(* break inside or at the edge of one of three small pieces                 *)
PieceTexts == {<<cA>>, <<NL>>, <<NL, 98>>, <<cA, NL>>, <<98>>}
ManyPieces ==
  IF Scope \notin {"c01","c02","c07","c17"} THEN {} ELSE
  {Cached(CC(<<Raw("str", x), Raw("str", y), Raw("str", z)>>)) :
     x \in PieceTexts, y \in PieceTexts, z \in PieceTexts}
  \cup {Cached(CC(<<Raw("str", x), Orig(y), Raw("str", z)>>)) :
          x \in PieceTexts, y \in PieceTexts, z \in PieceTexts}
  \cup {Replace(Raw("str", <<cA>>), <<Repl(1, 1, x), Repl(1, 1, y), Repl(2, 2, z)>>) :
          x \in PieceTexts, y \in PieceTexts, z \in PieceTexts}
(* a slice of a many-piece rope that starts inside its first piece, adopted  *)
(* as the rope of a ReplaceSource and sliced again by an enclosing one       *)
ResliceTrees ==
  IF Scope \notin {"c01", "c02", "c07", "c17"} THEN {} ELSE
  LET base == CC(<<Raw("str", <<cA, 98, 99>>), Raw("str", <<100, 101, 102>>)>>)
      \* a slice that spans three and four pieces keeps pieces in between whole
      \* (the first piece is cut by more than it keeps: offsets taken over from the uncut rope then
      \* point past the end of the piece before them)
      base4 == CC(<<Raw("str", <<cA, cA, cA, cA>>), Raw("str", <<98, 98>>), Raw("str", <<99, 99>>),
                   Orig(<<100, 100>>)>>)
  IN {Replace(Replace(base, <<Repl(0, k, <<>>)>>), <<Repl(p, p + 1, <<cX>>)>>) : k \in 1..2, p \in 0..4}
     \cup {Replace(CC(<<Replace(base, <<Repl(0, k, <<>>)>>), Raw("str", <<103, 104>>)>>),
                    <<Repl(p, p, <<cX>>)>>) : k \in 1..2, p \in 0..6}
     \cup {Replace(Replace(base4, <<Repl(0, 3, <<>>), Repl(e, e, <<cX>>)>>), <<Repl(p, p + k, <<cX>>)>>) :
             e \in {7, 9}, p \in 0..7, k \in 0..1}
     \cup {Replace(CC(<<Replace(base4, <<Repl(0, 2, <<>>), Repl(9, 10, <<>>)>>), Raw("str", <<103>>)>>),
                    <<Repl(p, p, <<cX>>)>>) : p \in 0..8}

(* a ReplaceSource as a child: what it reports as its end becomes the offset *)
(* of the next child (trailing replacements with line breaks included)      *)
ReplThenSibling ==
  IF Scope \notin {"c01","c02"} THEN {} ELSE
  UNION {{CC(<<Replace(x, <<Repl(p[1], p[2], c)>>), y>>) :
            p \in {q \in (0..(TextLen(x) + 1)) \X (0..(TextLen(x) + 1)) : q[1] <= q[2]},
            c \in {<<>>, <<cX>>, <<NL>>, <<cX, NL, cX>>},
            y \in {Orig(<<cA>>), Orig(<<cA, NL, cA>>), Raw("str", <<cA>>)}} :
          x \in {Orig(<<cA, cA>>), Raw("str", <<cA, NL, cA>>), Orig(<<cA, NL>>)}}

(* the same with a length change on an earlier line AND text appended at or  *)
(* past the inner end: the column correction of one line must not leak into *)
(* the end reported for another                                             *)
ReplPairThenSibling ==
  IF Scope \notin {"c01","c02"} THEN {} ELSE
  UNION {{CC(<<Replace(x, <<Repl(p[1], p[2], c1), Repl(TextLen(x) + d, TextLen(x) + d, c2)>>), y>>) :
            p \in {<<0, 0>>, <<0, 1>>, <<1, 2>>},
            c1 \in {<<>>, <<cX>>, <<cX, cX>>},
            d \in {0, 1},
            c2 \in {<<cX>>, <<cX, NL>>, <<NL, cX>>},
            y \in {Orig(<<cA>>), Orig(<<cA, NL, cA>>)}} :
          x \in {Orig(<<cA, NL, cA>>), Orig(<<cA, cA, NL, cA>>)}}

(* Texts that are not ASCII in trees whose columns are byte offsets          *)
(* throughout (Sem!ByteColumnTree): binary leaves with invalid sequences on *)
(* their last line (the lossy text is longer than the bytes), multi-byte    *)
(* characters, each followed by a mapped sibling on the same line, between  *)
(* two mapped children, on a later line of a two-line leaf, beneath a        *)
(* ReplaceSource; and OriginalSources with multi-byte text.                  *)
ByteLeaves ==
  {Raw(sub, b) : sub \in {"buf", "rawbuf"},
     b \in {<<97, 255, 32>>, <<240, 159>>, <<255, 254>>, <<97, 10, 255>>, <<255, 10, 97>>,
            <<226, 130, 172>>, <<97, 240, 159, 152, 128>>}}
  \cup {Raw(sub, b) : sub \in {"str", "rawstr"}, b \in {<<195, 169, 32>>, <<97, 10, 226, 130, 172>>}}
  \cup {[k |-> "orig", b |-> b, name |-> <<117, 46, 106, 115>>] :
          b \in {<<195, 169, 59, 97>>, <<97, 59, 226, 130, 172, 10, 97>>}}
BytePosTrees ==
  {CC(<<l, Orig(<<cA, cSC, cA, NL, cA>>)>>) : l \in ByteLeaves}
  \cup {CC(<<Orig(<<cA>>), l, Orig(<<cA, cSC>>)>>) : l \in ByteLeaves}
  \cup {CC(<<l, Raw("str", <<cA>>), Orig(<<cA>>)>>) : l \in ByteLeaves}
  \cup {Replace(CC(<<l, Orig(<<cA, cSC, cA>>)>>), <<Repl(0, 0, <<cX>>)>>) : l \in ByteLeaves}
  \cup {CC(<<Replace(l, <<Repl(0, 0, <<cX>>)>>), Orig(<<cA, cSC>>)>>) : l \in ByteLeaves}
  \cup {CC(<<Box(l), Orig(<<cA>>)>>) : l \in ByteLeaves}

TreesSmall ==
  IF Scope \notin {"c01","c02"} THEN {} ELSE
  BytePosTrees \cup LeavesRich \cup Pairs \cup ReplOverLeaf1 \cup ReplOverLeaf2
  \cup ReplOverPair \cup Wrapped \cup ReplThenSibling \cup ReplPairThenSibling \cup ManyPieces
  \cup ResliceTrees

(* binary and multi-byte leaves for the content-view scope                  *)
BinLeaves ==
  {Raw(sub, b) : sub \in {"buf", "rawbuf"},
     b \in {<<128>>, <<97, 195>>, <<226, 130>>, <<240, 159, 152>>,
            <<192, 175>>, <<237, 160, 128>>, <<255, 97>>, <<195, 169>>,
            <<226, 130, 172, 10>>, <<240, 159, 152, 128>>, <<97, 10, 98>>,
            <<244, 144, 128, 128>>, <<225, 128, 97>>}}
  \cup {Raw(sub, b) : sub \in {"str", "rawstr"},
          b \in {<<195, 169>>, <<97, 226, 130, 172>>, <<240, 159, 152, 128, 10>>}}

-----------------------------------------------------------------------------
(* programs                                                                 *)
Build(t) == [op |-> "build", dst |-> 0, tree |-> t]
Obs(op) == [op |-> op, r |-> 0]
Stream(c, f) == [op |-> "stream", r |-> 0, columns |-> c, final |-> f]
MapStep(c) == [op |-> "map", r |-> 0, columns |-> c]
Writer(kind, k) == [op |-> "writer", r |-> 0, kind |-> kind, k |-> k]

StreamObs ==
  <<Obs("source"), Stream(TRUE, FALSE), Stream(FALSE, FALSE),
    Stream(TRUE, TRUE), Stream(FALSE, TRUE), MapStep(TRUE), MapStep(FALSE),
    [op |-> "clone", dst |-> 1, src |-> 0],
    [op |-> "stream", r |-> 1, columns |-> TRUE, final |-> FALSE],
    [op |-> "stream", r |-> 1, columns |-> FALSE, final |-> FALSE]>>

ViewObs(n) ==
  <<Obs("source"), Obs("buffer"), Obs("size"), Obs("rope")>>
  \o [i \in 1..(n + 1) |-> Writer("err", i - 1)]
  \o [i \in 1..(n + 1) |-> Writer("flaky", i - 1)]
  \o <<Writer("zero", 0), Writer("zero", n \div 2), Writer("intr", 0),
       Writer("intr", n \div 2), Writer("chunky", 0), Writer("chunk7", 0), Writer("ok", 0)>>

Prog(steps) == [steps |-> steps]

ScriptWriters ==
  LET ss == SetToSeq(ScriptsUpTo(3))
  IN [i \in 1..Len(ss) |-> [op |-> "writer", r |-> 0, kind |-> "script", k |-> 0, script |-> ss[i]]]
ScriptTrees ==
  {CC(<<Raw("str", <<cA, cB>>), Orig(<<cA, NL>>), Raw("rawstr", <<cB>>)>>),
   CC(<<Orig(<<cA>>), Raw("str", <<>>), Raw("buf", <<255, cA>>), Raw("rawbuf", <<cB, cB, cB>>)>>),
   [k |-> "concat", mode |-> "boxed", ch |-> <<Orig(<<cA, cB>>)>>, adds |-> <<Raw("str", <<NL>>), Orig(<<cB>>)>>],
   [k |-> "concat", mode |-> "typed", ch |-> <<CC(<<Raw("str", <<cA>>), Orig(<<cA>>)>>), CC(<<Raw("str", <<cB, cB>>)>>)>>],
   Cached(CC(<<Raw("str", <<cA, cB>>), Raw("str", <<cA>>)>>)),
   Replace(CC(<<Orig(<<cA, cB, cA>>), Raw("str", <<cB>>)>>), <<Repl(1, 2, <<cX, cX>>)>>),
   CC(<<Replace(Orig(<<cA, cB, cA>>), <<Repl(1, 2, <<cX>>)>>), Box(Raw("rawstr", <<cA, cA>>)), Orig(<<cB>>)>>),
   Raw("str", <<cA, cB, cA, cB, cA, cB>>), Orig(<<cA, cSC, cA, cSC, NL, cA>>)}

SplitHeads == {<<97, 195>>, <<226, 130>>, <<226>>, <<240, 159, 152>>, <<240>>, <<97>>}
SplitTails == {<<169>>, <<172, 98>>, <<130, 172>>, <<128>>, <<159, 152, 128, 98>>, <<98>>}
ViewTrees ==
  IF Scope \notin {"c07"} THEN {} ELSE
  BinLeaves
  \cup {CC(<<a, b>>) : a \in BinLeaves, b \in {Raw("str", <<cA>>), Orig(<<cA, NL>>)}}
  \cup {CC(<<b, a>>) : a \in BinLeaves, b \in {Raw("rawstr", <<cA>>)}}
  \cup {Replace(a, <<Repl(0, 1, <<cX>>)>>) : a \in BinLeaves}
  \cup {Cached(a) : a \in BinLeaves}
  \cup Pairs \cup ReplOverLeaf2 \cup Wrapped \cup ManyPieces \cup ResliceTrees
  \* adjacent binary leaves that split a multi-byte sequence between them: the text of the whole is the
  \* concatenation of the children's (lossy) texts, not the lossy text of the joined bytes
  \cup {CC(<<Raw(s1, a), Raw(s2, b)>>) : s1 \in {"buf", "rawbuf"}, s2 \in {"buf", "rawbuf"},
                                         a \in SplitHeads, b \in SplitTails}
  \cup {CC(<<Raw("buf", a), Raw("rawbuf", <<>>), Raw("buf", b)>>) : a \in SplitHeads, b \in SplitTails}
  \cup {Cached(CC(<<Raw("buf", a), Raw("rawbuf", b)>>)) : a \in SplitHeads, b \in SplitTails}
  \cup {[k |-> "concat", mode |-> "boxed", ch |-> <<Orig(<<cA>>)>>,
         adds |-> <<a, Raw("str", <<NL>>)>>] : a \in BinLeaves}
  \cup {[k |-> "concat", mode |-> "typed",
         ch |-> <<CC(<<a, Orig(<<cA>>)>>), CC(<<Raw("str", <<cA>>)>>)>>] :
          a \in BinLeaves}


-----------------------------------------------------------------------------
(* ReplaceSource histories (C05): mutating calls interleaved with           *)
(* observers; the k-th call inserts its own letter so that order is visible *)
MutArgs == {<<0, 0>>, <<1, 1>>, <<1, 2>>, <<0, 3>>, <<1, 3>>, <<2, 5>>}
Apis(p) == IF p[1] = p[2] THEN {"insert_enf", "replace_enf"} ELSE {"replace_enf"}
Mut(k, p, enf, api) ==
  [op |-> "replace", r |-> 0, s |-> p[1], e |-> p[2], c |-> <<cX + k>>,
   n |-> <<>>, enf |-> enf, api |-> api]
Muts(k) == UNION {{Mut(k, p, enf, api) : enf \in 0..2, api \in Apis(p)} : p \in MutArgs}
MutsSlim(k) ==
  {Mut(k, p, enf, "replace_enf") : p \in {<<1, 1>>, <<1, 2>>, <<0, 3>>}, enf \in {0, 2}}
  \cup {[op |-> "replace", r |-> 0, s |-> 1, e |-> 1, c |-> <<cX + k>>,
          n |-> <<>>, enf |-> 1, api |-> "insert"]}

CloneObs == <<[op |-> "clone", dst |-> 1, src |-> 0], [op |-> "source", r |-> 1]>>
ObsThenClone == <<[op |-> "size", r |-> 0], [op |-> "clone", dst |-> 1, src |-> 0], [op |-> "source", r |-> 1]>>
Between ==
  {<<>>, <<Obs("source")>>, <<Obs("rope")>>, <<Obs("buffer")>>, <<Obs("size")>>,
   <<MapStep(TRUE)>>, <<[op |-> "hash", r |-> 0, h |-> "twox"]>>, CloneObs, ObsThenClone,
   <<Stream(TRUE, FALSE)>>, <<Obs("debug")>>, <<Writer("ok", 0)>>}
BetweenSlim == {<<>>, <<Obs("source")>>, <<[op |-> "hash", r |-> 0, h |-> "twox"]>>, CloneObs, ObsThenClone}
(* ... and a clone taken at the very end, after every observer has run on   *)
(* the original (its lazily built index is then marked valid)               *)
FinalObs ==
  <<Obs("source"), Obs("rope"), Obs("buffer"), Obs("size"), Writer("ok", 0),
    Stream(TRUE, FALSE), [op |-> "source", r |-> 1],
    [op |-> "clone", dst |-> 2, src |-> 0], [op |-> "source", r |-> 2], [op |-> "rope", r |-> 2],
    [op |-> "size", r |-> 2], [op |-> "stream", r |-> 2, columns |-> TRUE, final |-> FALSE]>>

HistInner == Raw("str", <<cA, 98, 99>>)
HistStart == <<Build(Replace(HistInner, <<>>)), [op |-> "clone", dst |-> 1, src |-> 0]>>

Hist2 ==
  IF Scope \notin {"c05"} THEN {} ELSE
  {Prog(HistStart \o <<m1>> \o o \o <<m2>> \o FinalObs) :
     m1 \in Muts(1), o \in Between, m2 \in Muts(2)}
Hist3 ==
  IF Scope \notin {"c05"} THEN {} ELSE
  {Prog(HistStart \o <<m1>> \o o1 \o <<m2>> \o o2 \o <<m3>> \o FinalObs) :
     m1 \in MutsSlim(1), o1 \in BetweenSlim, m2 \in MutsSlim(2),
     o2 \in BetweenSlim, m3 \in MutsSlim(3)}

(* the same call made twice (every field equal), with and without an        *)
(* observer in between and a different call in between: each call counts    *)
HistTwice ==
  IF Scope \notin {"c05"} THEN {} ELSE
  {Prog(HistStart \o <<m>> \o o \o <<m>> \o FinalObs) : m \in Muts(1), o \in Between}
  \cup {Prog(HistStart \o <<m>> \o <<m>> \o o \o <<m2>> \o <<m>> \o FinalObs) :
          m \in MutsSlim(1), o \in BetweenSlim, m2 \in MutsSlim(2)}

-----------------------------------------------------------------------------
(* composition laws (C13) and child attribution in concatenations (C06)     *)
SmsWith(t, segs, sources, contents, names, root) ==
  [k |-> "sms", b |-> t, name |-> GenName,
   map |-> [m |-> EncodeSegs(segs), sources |-> sources, contents |-> contents,
            names |-> names, root |-> root, file |-> <<>>, dbg |-> <<>>],
   inner |-> <<>>, osrc |-> <<>>, remove |-> FALSE]

SmsA == SmsWith(<<cA, cA, NL, cA>>,
                <<Seg(1, 0, <<0, 1, 0, 0>>), Seg(2, 0, <<1, 1, 2, -1>>)>>,
                <<FileA, FileB>>, <<ContentA, ContentB>>, <<Name0>>, <<>>)
SmsB == SmsWith(<<cA, cSP, cA>>,
                <<Seg(1, 0, <<-1, 0, 0, -1>>), Seg(1, 2, <<0, 2, 1, 1>>)>>,
                <<FileA>>, <<ContentA>>, <<Name0, Name1>>, <<>>)
SmsC == SmsWith(<<cA, cA>>,
                <<Seg(1, 0, <<1, 1, 0, -1>>), Seg(1, 1, <<0, 1, 1, 0>>)>>,
                <<FileB, FileA>>, <<>>, <<Name1>>, <<>>)
SmsD == SmsWith(<<cA, NL>>,
                <<Seg(1, 0, <<0, 3, 0, -1>>)>>,
                <<FileA>>, <<ContentA>>, <<>>, <<<<114, 47>>>>)

\* same file and content as SmsA/SmsB, its own name table (the composite's index of Name1 is not 0)
SmsE == SmsWith(<<cA, cA>>,
                <<Seg(1, 0, <<0, 1, 0, 0>>), Seg(1, 1, <<0, 1, 1, -1>>)>>,
                <<FileA>>, <<ContentA>>, <<Name1>>, <<>>)

LawXs ==
  {Orig(<<cA>>), Orig(<<cA, NL>>), Orig(<<cA, NL, cA>>), Raw("str", <<98>>),
   Raw("str", <<>>), Raw("str", <<98, NL>>), SmsA, SmsB}

ObsAll(r) ==
  <<[op |-> "source", r |-> r], [op |-> "map", r |-> r, columns |-> TRUE],
    [op |-> "map", r |-> r, columns |-> FALSE]>>

SameLaw(lhs, rhs) ==
  Prog(<<[op |-> "build", dst |-> 0, tree |-> lhs]>> \o ObsAll(0)
       \o <<[op |-> "build", dst |-> 1, tree |-> rhs]>> \o ObsAll(1)
       \o <<[op |-> "law", law |-> "same", a |-> 0, b |-> 1]>>)

Typed(ch) == [k |-> "concat", mode |-> "typed", ch |-> ch]
WithAdds(ch, adds) == [k |-> "concat", mode |-> "boxed", ch |-> ch, adds |-> adds]
EmptyRepl == [s |-> 1, e |-> 1, c |-> <<>>, n |-> <<>>, enf |-> 1, api |-> "insert"]

Regroupings(a, b, c) ==
  LET flat == CC(<<a, b, c>>)
  IN {SameLaw(flat, Typed(<<CC(<<a, b>>), CC(<<c>>)>>)),
      SameLaw(flat, Typed(<<CC(<<a>>), CC(<<b, c>>)>>)),
      SameLaw(flat, CC(<<CC(<<a, b>>), c>>)),
      SameLaw(flat, CC(<<a, CC(<<b, c>>)>>)),
      SameLaw(flat, CC(<<Box(CC(<<a, b>>)), c>>)),
      SameLaw(flat, WithAdds(<<a>>, <<b, c>>)),
      SameLaw(flat, WithAdds(<<a>>, <<CC(<<b, c>>)>>)),
      SameLaw(flat, WithAdds(<<>>, <<a, b, c>>))}

Neutral(x) ==
  {SameLaw(x, CC(<<x>>)), SameLaw(x, CC(<<x, Raw("str", <<>>)>>)),
   SameLaw(x, CC(<<Raw("str", <<>>), x>>)),
   SameLaw(x, CC(<<Raw("rawbuf", <<>>), x, Orig(<<>>)>>)),
   SameLaw(x, Replace(x, <<>>)), SameLaw(x, Replace(x, <<EmptyRepl>>)),
   SameLaw(x, Replace(x, <<EmptyRepl, [EmptyRepl EXCEPT !.s = 0, !.e = 0]>>)),
   SameLaw(x, Cached(x)), SameLaw(x, Box(x)), SameLaw(x, Box(Box(x))),
   SameLaw(x, Cached(Box(x)))}

LawScope ==
  IF Scope \notin {"c13"} THEN {} ELSE
  UNION {Regroupings(a, b, c) : a \in LawXs, b \in LawXs, c \in LawXs}
  \cup UNION {Neutral(x) :
               x \in LawXs \cup SlimPairs \cup {SmsC, SmsD}
                     \cup {Replace(Orig(<<cA, NL, cA>>), <<Repl(1, 2, <<cX>>)>>),
                           CC(<<Orig(<<cA>>), Raw("str", <<98>>), Orig(<<cA, NL>>)>>)}}

(* a wrapper in the middle of a tree, asked twice: the second answer of a    *)
(* CachedSource is replayed from what the first stored, and whatever follows *)
(* the wrapper is placed after the end the replay reports (C13, C10)         *)
SameLawTwice(pre, lhs, rhs) ==
  Prog(pre \o <<[op |-> "build", dst |-> 0, tree |-> lhs]>> \o ObsAll(0)
       \o <<[op |-> "build", dst |-> 1, tree |-> rhs]>> \o ObsAll(1)
       \o <<[op |-> "law", law |-> "same", a |-> 0, b |-> 1]>>
       \o ObsAll(1)
       \o <<[op |-> "law", law |-> "same", a |-> 0, b |-> 1]>>)
TailO == Orig(<<cX, NL, cX, NL>>)
WrappedXs ==
  LawXs \cup {SmsC, SmsD,
              CC(<<Orig(<<cA, NL>>), Orig(<<cB, NL>>), Raw("str", <<>>)>>),
              CC(<<Orig(<<cA, NL>>), Raw("str", <<>>)>>),
              CC(<<Orig(<<cA>>), Raw("str", <<>>)>>),
              CC(<<Raw("str", <<>>), Orig(<<cA, NL>>)>>),
              CC(<<Orig(<<cA, NL>>), Raw("str", <<cB, NL>>)>>),
              Replace(Orig(<<cA, NL, cA>>), <<Repl(1, 2, <<cX>>)>>),
              Replace(Orig(<<cA, NL, cA>>), <<Repl(2, 3, <<>>)>>)}
LawScopeTwice ==
  IF Scope \notin {"c13"} THEN {} ELSE
  {SameLawTwice(<<>>, CC(<<x, TailO>>), CC(<<Cached(x), TailO>>)) : x \in WrappedXs}
  \cup {SameLawTwice(<<>>, CC(<<Raw("str", <<cB>>), x, TailO>>),
                      CC(<<Raw("str", <<cB>>), Cached(Box(x)), TailO>>)) : x \in WrappedXs}
  \cup {SameLawTwice(<<[op |-> "build", dst |-> 2, tree |-> Cached(x)]>>,
                      CC(<<x, x, TailO>>),
                      CC(<<[k |-> "reg", r |-> 2], [k |-> "reg", r |-> 2], TailO>>)) : x \in WrappedXs}

(* ConcatSource over mapped, empty and raw children in every order (C04,     *)
(* C03): a pending "close the mapping" must survive empty children          *)
C04Kids ==
  {Orig(<<cA>>), Orig(<<cA, NL>>), Orig(<<>>), Raw("str", <<>>), Raw("str", <<98>>),
   Raw("str", <<98, NL>>), Replace(Orig(<<cA>>), <<Repl(0, 1, <<>>)>>)}
C04Slim == {Orig(<<cA>>), Orig(<<>>), Raw("str", <<>>), Raw("str", <<98>>)}
C04Scope ==
  IF Scope \notin {"c04"} THEN {} ELSE
  {Prog(<<Build(CC(<<x, y, z>>))>> \o StreamObs) : x \in C04Kids, y \in C04Kids, z \in C04Kids}
  \cup {Prog(<<Build(CC(<<w, x, y, z>>))>> \o StreamObs) :
          w \in C04Slim, x \in C04Slim, y \in C04Slim, z \in C04Slim}
  \cup {Prog(<<Build(Cached(CC(<<x, y, z>>)))>> \o StreamObs) :
          x \in C04Slim, y \in C04Slim, z \in C04Slim}

C06Ys ==
  {Orig(<<cA>>), Orig(<<cA, NL>>), Raw("str", <<98, NL>>), Raw("str", <<98>>),
   SmsA, SmsB, SmsC, SmsD, SmsE,
   \* children whose own final-mode stream carries closings and empty pieces
   Raw("str", <<>>), CC(<<Orig(<<cA>>), Raw("str", <<98>>)>>),
   CC(<<Orig(<<cA, NL>>), Raw("str", <<>>)>>),
   Replace(Orig(<<cA, NL, cA>>), <<Repl(1, 2, <<cX>>)>>)}

ObsAllF(r) == ObsAll(r) \o <<[op |-> "stream", r |-> r, columns |-> TRUE, final |-> TRUE],
                             [op |-> "stream", r |-> r, columns |-> TRUE, final |-> FALSE]>>

ConcatChildrenProg(a, b, c) ==
  Prog(<<[op |-> "build", dst |-> 1, tree |-> a]>> \o ObsAllF(1)
       \o <<[op |-> "build", dst |-> 2, tree |-> b]>> \o ObsAllF(2)
       \o <<[op |-> "build", dst |-> 3, tree |-> c]>> \o ObsAllF(3)
       \o <<[op |-> "build", dst |-> 0,
             tree |-> CC(<<[k |-> "reg", r |-> 1], [k |-> "reg", r |-> 2],
                          [k |-> "reg", r |-> 3]>>)]>>
       \o ObsAllF(0)
       \o <<[op |-> "law", law |-> "concat_children", r |-> 0,
             children |-> <<1, 2, 3>>]>>)

C06Scope ==  IF Scope \notin {"c06"} THEN {} ELSE
 {ConcatChildrenProg(a, b, c) : a \in C06Ys, b \in C06Ys, c \in C06Ys}

-----------------------------------------------------------------------------
(* ReplaceSource keeps the attribution of its inner source (C06)            *)
NameRn == <<114, 110>>       \* rn
SmsDupNames == SmsWith(<<cA, cSP, cA>>,
                <<Seg(1, 0, <<0, 1, 0, 0>>), Seg(1, 2, <<0, 2, 1, 1>>)>>,
                <<FileA>>, <<ContentA>>, <<Name0, Name0>>, <<>>)
(* identity-like: the text is the content of a.js and positions map to      *)
(* themselves, so that content checks succeed                               *)
SmsIdent == SmsWith(ContentA,
                <<Seg(1, 0, <<0, 1, 0, -1>>), Seg(1, 2, <<0, 1, 2, 0>>),
                  Seg(2, 0, <<0, 2, 0, -1>>)>>,
                <<FileA>>, <<ContentA>>, <<Name0>>, <<>>)
(* an empty replacement at every position of leaves whose chunks carry      *)
(* names and whose recorded content equals the text (C13: changes nothing)  *)
LawScopeNamed ==
  IF Scope \notin {"c13"} THEN {} ELSE
  UNION {{SameLaw(x, Replace(x, <<[EmptyRepl EXCEPT !.s = p, !.e = p]>>)) : p \in 0..Len(x.b)} :
          x \in {SmsIdent, SmsDupNames}}

(* a user-defined child that announces its names lazily                     *)
LazyChild ==
  [k |-> "script", b |-> <<cA, cA, 98, 98, 99, NL>>,
   ev |-> <<[t |-> "S", i |-> 0, name |-> FileA, c |-> <<ContentA>>],
            [t |-> "C", x |-> <<<<cA, cA>>>>, gl |-> 1, gc |-> 0, o |-> <<0, 1, 0, -1>>],
            [t |-> "N", i |-> 0, name |-> Name0],
            [t |-> "C", x |-> <<<<98, 98>>>>, gl |-> 1, gc |-> 2, o |-> <<0, 1, 2, 0>>],
            [t |-> "N", i |-> 1, name |-> Name1],
            [t |-> "C", x |-> <<<<99, NL>>>>, gl |-> 1, gc |-> 4, o |-> <<0, 2, 0, 1>>]>>,
   end |-> <<2, 0>>]

C06Inners ==
  {SmsA, SmsB, SmsC, SmsD, SmsDupNames, SmsIdent, LazyChild, Orig(<<cA, cA, cSC, NL, cA>>),
   CC(<<SmsB, Orig(<<cA, NL>>)>>), CC(<<Raw("str", <<98>>), SmsIdent>>)}

ReplN(s, e, c, n) == [s |-> s, e |-> e, c |-> c, n |-> n, enf |-> 1, api |-> "replace"]
C06Contents == {<<>>, <<cX>>, <<cX, NL, cX>>}
C06Repls1(n) ==
  {<<ReplN(p[1], p[2], c, nm)>> :
     p \in {q \in (0..(n + 1)) \X (0..(n + 1)) : q[1] <= q[2]},
     c \in C06Contents, nm \in {<<>>, <<NameRn>>}}
C06ReplsSlim(n) ==
  {<<ReplN(p[1], p[2], <<cX>>, nm)>> :
     p \in {<<0, 0>>, <<0, 1>>, <<1, 2>>, <<1, 1>>, <<2, n>>, <<n, n + 1>>, <<3, 4>>},
     nm \in {<<>>, <<NameRn>>}}

ReplaceInnerProg(inner, repls) ==
  Prog(<<[op |-> "build", dst |-> 1, tree |-> inner],
         [op |-> "stream", r |-> 1, columns |-> TRUE, final |-> FALSE],
         [op |-> "stream", r |-> 1, columns |-> TRUE, final |-> FALSE],
         [op |-> "source", r |-> 1],
         [op |-> "build", dst |-> 0,
          tree |-> Replace([k |-> "reg", r |-> 1], repls)],
         [op |-> "source", r |-> 0],
         [op |-> "stream", r |-> 0, columns |-> TRUE, final |-> FALSE],
         [op |-> "map", r |-> 0, columns |-> TRUE],
         [op |-> "law", law |-> "replace_inner", r |-> 0, inner |-> 1]>>)

InnerLen(t) ==
  IF t.k = "concat" THEN Len(t.ch[1].b) + Len(t.ch[2].b) ELSE Len(t.b)

(* a named replacement without content (a deletion that carries a name) next  *)
(* to a named replacement with content, same or different names, either order  *)
C06NamedDel(n) ==
  UNION {{<<ReplN(p, p + 1, c1, <<n1>>), ReplN(q, q + 1, c2, <<n2>>)>> :
            n1 \in {NameRn, Name0}, n2 \in {NameRn, Name0},
            c1 \in {<<>>}, c2 \in {<<cX>>, <<>>}} \cup
         {<<ReplN(p, p + 1, <<cX>>, <<n1>>), ReplN(q, q + 1, <<>>, <<n2>>)>> :
            n1 \in {NameRn, Name0}, n2 \in {NameRn, Name0}} :
          p \in 0..(n - 1), q \in 0..(n - 1)} \ {<<>>}

C06RScope ==
  IF Scope # "c06r" THEN {} ELSE
  UNION {{ReplaceInnerProg(x, r) : r \in C06Repls1(InnerLen(x))} : x \in C06Inners}
  \cup UNION {{ReplaceInnerProg(x, r) : r \in {q \in C06NamedDel(InnerLen(x)) : q[1].s < q[2].s}} : x \in C06Inners}
  \cup UNION {{ReplaceInnerProg(x, r1 \o r2) :
                 r1 \in C06ReplsSlim(InnerLen(x)), r2 \in C06ReplsSlim(InnerLen(x))} :
               x \in C06Inners}

-----------------------------------------------------------------------------
(* SourceMapSource / default-helper leaves reproduce the given map (C08)    *)
C08Texts ==
  {<<cA>>, <<cA, cB>>, <<cA, cB, cA>>, <<cA, NL>>, <<cA, cB, NL>>, <<cA, NL, cB>>,
   <<cA, cB, NL, cA>>, <<cA, NL, cB, cA>>, <<cA, NL, NL>>, <<NL>>, <<NL, cA>>, <<>>,
   <<cA, NL, NL, cB>>}

(* segment positions: every character, the zero-width place after the last  *)
(* character of every line, and the end of the text                         *)
C08Positions(t) ==
  LET ls == Lines(t)
  IN UNION {{<<ln, c>> : c \in 0..Len(ls[ln])} : ln \in 1..Len(ls)}
     \cup {EndPos(t)}

PosSeqLt(p, q) == p[1] < q[1] \/ (p[1] = q[1] /\ p[2] < q[2])

C08SegLists(t) ==
  LET P == C08Positions(t)
      few == {I \in SUBSET P : Cardinality(I) <= 2}
      three == {I \in SUBSET P : Cardinality(I) = 3}
      mk(I, O) ==
        LET ps == SetToSortSeq(I, PosSeqLt)
        IN {[j \in 1..Len(ps) |-> Seg(ps[j][1], ps[j][2], f[j])] : f \in [1..Len(ps) -> O]}
  IN UNION {mk(I, Origs) : I \in few}
     \cup UNION {mk(I, {<<-1, 0, 0, -1>>, <<0, 2, 1, 0>>}) : I \in three}

Roots == {<<>>, <<<<>>>>, <<<<114>>>>, <<<<114, 47>>>>}

Default(t, m) == [k |-> "default", b |-> t, map |-> <<m>>]

C08Prog(t, segs, root) ==
  LET m == MapOf(segs, root)
      leaf == [k |-> "sms", b |-> t, name |-> GenName, map |-> m,
               inner |-> <<>>, osrc |-> <<>>, remove |-> FALSE]
      four(r) == <<[op |-> "stream", r |-> r, columns |-> TRUE, final |-> FALSE],
                   [op |-> "stream", r |-> r, columns |-> FALSE, final |-> FALSE],
                   [op |-> "stream", r |-> r, columns |-> TRUE, final |-> TRUE],
                   [op |-> "stream", r |-> r, columns |-> FALSE, final |-> TRUE]>>
  IN Prog(<<[op |-> "build", dst |-> 0, tree |-> leaf]>> \o four(0) \o ObsAll(0)
          \o <<[op |-> "build", dst |-> 1, tree |-> Default(t, m)]>> \o four(1)
          \o <<[op |-> "build", dst |-> 3, tree |-> Raw("str", <<cX, NL, cX>>)]>> \o ObsAll(3)
          \o <<[op |-> "build", dst |-> 2,
                tree |-> CC(<<[k |-> "reg", r |-> 3], [k |-> "reg", r |-> 0]>>)]>>
          \o ObsAll(2)
          \o <<[op |-> "law", law |-> "concat_children", r |-> 2, children |-> <<3, 0>>]>>)

(* source names a well-meant "fix" might treat specially: URLs, absolute     *)
(* paths, parent references, a name that is empty - sourceRoot is applied    *)
(* to all of them alike                                                      *)
OddNames == {<<119, 58, 47, 47, 97>>, <<47, 97>>, <<46, 46, 47, 97>>, <<>>, <<97, 92, 98>>, <<104, 116, 116, 112, 58, 47, 47, 120>>}
C08ProgNamed(t, segs, root, nm) ==
  LET base == MapOf(segs, root)
      m == [base EXCEPT !.sources = <<nm, base.sources[2]>>]
      leaf == [k |-> "sms", b |-> t, name |-> GenName, map |-> m,
               inner |-> <<>>, osrc |-> <<>>, remove |-> FALSE]
      four(r) == <<[op |-> "stream", r |-> r, columns |-> TRUE, final |-> FALSE],
                   [op |-> "stream", r |-> r, columns |-> FALSE, final |-> FALSE],
                   [op |-> "stream", r |-> r, columns |-> TRUE, final |-> TRUE],
                   [op |-> "stream", r |-> r, columns |-> FALSE, final |-> TRUE]>>
  IN Prog(<<[op |-> "build", dst |-> 0, tree |-> leaf]>> \o four(0) \o ObsAll(0)
          \o <<[op |-> "build", dst |-> 1, tree |-> Default(t, m)]>> \o four(1)
          \o <<[op |-> "build", dst |-> 3, tree |-> Raw("str", <<cX, NL, cX>>)]>> \o ObsAll(3)
          \o <<[op |-> "build", dst |-> 2,
                tree |-> CC(<<[k |-> "reg", r |-> 3], [k |-> "reg", r |-> 0]>>)]>>
          \o ObsAll(2)
          \o <<[op |-> "law", law |-> "concat_children", r |-> 2, children |-> <<3, 0>>]>>)

C08Scope ==
  IF Scope # "c08" THEN {} ELSE
  UNION {UNION {{C08ProgNamed(<<cA, NL, cB>>, sl, root, nm) :
                   sl \in {x \in C08SegLists(<<cA, NL, cB>>) : Len(x) = 2 /\ x[1].si = 0}} :
                 root \in Roots} : nm \in OddNames}
  \cup
  UNION {{C08Prog(t, sl, <<>>) : sl \in C08SegLists(t)} : t \in C08Texts}
  \cup UNION {UNION {{C08Prog(t, sl, root) : sl \in {x \in C08SegLists(t) : Len(x) = 1}} :
                      root \in Roots \ {<<>>}} : t \in {<<cA, cB>>, <<cA, NL, cB>>}}

-----------------------------------------------------------------------------
(* combined source maps (C09)                                               *)
InnerName == <<105, 46, 106, 115>>         \* i.js
InnerX == <<120, 121, cSC, NL, 122>>       \* "xy;\nz"
NameAA == <<cA, cA>>

C09OuterOrigs ==
  {<<-1, 0, 0, -1>>, <<0, 1, 0, -1>>, <<0, 1, 1, 0>>, <<0, 2, 0, -1>>,
   <<1, 1, 0, -1>>, <<0, 1, 2, 1>>}
C09InnerOrigs == {<<-1, 0, 0, -1>>, <<0, 1, 0, -1>>, <<1, 1, 1, -1>>, <<0, 2, 1, 0>>}

SegListsOver(t, n, O) ==
  LET pt == PosTable(t)
      subsets == {I \in SUBSET (1..Len(t)) : Cardinality(I) <= n}
  IN UNION {
       LET is == SetToSortSeq(I, <)
       IN {[j \in 1..Len(is) |-> Seg(pt[is[j]][1], pt[is[j]][2], f[j])] :
             f \in [1..Len(is) -> O]}
       : I \in subsets}

C09Sms(t, osegs, isegs, withOsrc, remove) ==
  [k |-> "sms", b |-> t, name |-> InnerName,
   map |-> [m |-> EncodeSegs(osegs), sources |-> <<InnerName, FileA>>,
            contents |-> IF withOsrc THEN <<<<>>, ContentA>> ELSE <<InnerX, ContentA>>,
            names |-> <<NameAA, Name1>>, root |-> <<>>, file |-> <<>>, dbg |-> <<>>],
   inner |-> <<[m |-> EncodeSegs(isegs), sources |-> <<FileA, FileB>>,
               contents |-> <<ContentA, ContentB>>, names |-> <<Name0>>,
               root |-> <<>>, file |-> <<>>, dbg |-> <<>>]>>,
   osrc |-> IF withOsrc THEN <<InnerX>> ELSE <<>>,
   remove |-> remove]

C09Prog(x) ==
  Prog(<<Build(x), Obs("source"), MapStep(TRUE), MapStep(FALSE),
         Stream(TRUE, FALSE), Stream(FALSE, FALSE), Stream(TRUE, TRUE), Stream(FALSE, TRUE)>>)

C09T1 == <<cA, cB>>
C09T2 == <<cA, cSP, cB, NL, cA, cB>>

(* combined maps whose outer and inner segments point anywhere (C17): lines *)
(* 0 and beyond the contents, columns beyond the line, indices beyond the   *)
(* tables, with and without names                                           *)
C17Outer == {<<0, ol, oc, ni>> : ol \in {0, 1, 3}, oc \in {0, 1}, ni \in {-1, 0, 5}}
C17Inner == {<<si, ol, oc, ni>> : si \in {-1, 0, 4}, ol \in {0, 1, 9}, oc \in {0, 9}, ni \in {-1, 0, 3}}
C17Scope ==
  IF Scope # "c17" THEN {} ELSE
  {C09Prog(C09Sms(C09T1, <<Seg(1, 0, o)>>, <<Seg(1, gc, i)>>, w, rm)) :
     o \in C17Outer, i \in C17Inner, gc \in {0, 1}, w \in BOOLEAN, rm \in BOOLEAN}

C09OO ==
  IF Scope = "c09full" THEN C09OuterOrigs
  ELSE {<<-1, 0, 0, -1>>, <<0, 1, 1, 0>>, <<0, 2, 0, -1>>, <<1, 1, 0, -1>>}

(* names: the outer and the inner map share name strings, the inner table     *)
(* repeats one, three named segments in every combination - the global name   *)
(* table must hand every string one index                                     *)
C09NSms(osegs, isegs) ==
  [k |-> "sms", b |-> <<cA, cB, 99>>, name |-> InnerName,
   map |-> [m |-> EncodeSegs(osegs), sources |-> <<InnerName, FileA>>,
            contents |-> <<<<>>, ContentA>>,
            names |-> <<Name0, Name1>>, root |-> <<>>, file |-> <<>>, dbg |-> <<>>],
   inner |-> <<[m |-> EncodeSegs(isegs), sources |-> <<FileB>>,
               contents |-> <<ContentB>>, names |-> <<Name0, Name0, Name1>>,
               root |-> <<>>, file |-> <<>>, dbg |-> <<>>]>>,
   osrc |-> <<<<120, 121, 122>>>>, remove |-> FALSE]
C09NOuter(k) == {<<0, 1, k, n>> : n \in {-1, 0, 1}} \cup {<<1, 1, 0, n>> : n \in {0, 1}}
C09NScope ==
  IF Scope \notin {"c09", "c09full"} THEN {} ELSE
  {C09Prog(C09NSms(<<Seg(1, 0, o1), Seg(1, 1, o2), Seg(1, 2, o3)>>,
                   <<Seg(1, 0, <<0, 1, 0, i1>>), Seg(1, 1, <<0, 1, 1, i2>>), Seg(1, 2, <<0, 1, 2, i3>>)>>)) :
     o1 \in C09NOuter(0), o2 \in C09NOuter(1), o3 \in C09NOuter(2),
     i1 \in {-1, 0, 2}, i2 \in {-1, 0, 2}, i3 \in {-1, 1, 2}}

C09Scope ==
  IF Scope \notin {"c09", "c09full"} THEN {} ELSE
  C09NScope \cup
  {C09Prog(C09Sms(C09T1, o, i, TRUE, FALSE)) :
     o \in SegListsOver(C09T1, 2, C09OO), i \in SegListsOver(InnerX, 2, C09InnerOrigs)}
  \cup {C09Prog(C09Sms(C09T2, o, i, TRUE, FALSE)) :
          o \in SegListsOver(C09T2, 2, C09OO), i \in SegListsOver(InnerX, 1, C09InnerOrigs)}
  \cup {C09Prog(C09Sms(C09T2, o, i, w, rm)) :
          o \in SegListsOver(C09T2, 1, C09OuterOrigs), i \in SegListsOver(InnerX, 1, C09InnerOrigs),
          w \in BOOLEAN, rm \in BOOLEAN}

-----------------------------------------------------------------------------
(* the mappings codec (C12)                                                 *)
SegT(gl, gc, o) == <<gl, gc, o[1], o[2], o[3], o[4]>>
SegLe6(a, b) == a[1] < b[1] \/ (a[1] = b[1] /\ a[2] <= b[2])

C12Origs ==
  {<<-1, 0, 0, -1>>} \cup
  {<<si, ol, oc, ni>> : si \in {0, 1}, ol \in {1, 2}, oc \in {0, 2}, ni \in {-1, 0, 1}}
C12Segs == {SegT(gl, gc, o) : gl \in {1, 2}, gc \in {0, 1, 3}, o \in C12Origs}
C12SlimOrigs == {<<-1, 0, 0, -1>>, <<0, 1, 0, -1>>, <<0, 1, 0, 0>>, <<1, 2, 1, -1>>}
C12SlimSegs == {SegT(gl, gc, o) : gl \in {1, 2}, gc \in {0, 1}, o \in C12SlimOrigs}

BigD == {0, 1, 15, 16, 31, 32, 1023, 1024, 1048576, 1073741823}
(* one field takes big values in two consecutive segments, the rest is fixed *)
BigPairs ==
  {<<SegT(1, a, <<0, 1, 0, -1>>), SegT(1 + (IF b < a THEN 1 ELSE 0), b, <<0, 1, 0, -1>>)>> : a \in BigD, b \in BigD}
  \cup {<<SegT(1, 0, <<a, 1, 0, -1>>), SegT(1, 1, <<b, 1, 0, -1>>)>> : a \in BigD, b \in BigD}
  \cup {<<SegT(1, 0, <<0, a + 1, 0, -1>>), SegT(1, 1, <<0, b + 1, 0, -1>>)>> : a \in BigD, b \in BigD}
  \cup {<<SegT(1, 0, <<0, 1, a, -1>>), SegT(1, 1, <<0, 1, b, -1>>)>> : a \in BigD, b \in BigD}
  \cup {<<SegT(1, 0, <<0, 1, 0, a>>), SegT(1, 1, <<0, 1, 0, b>>)>> : a \in BigD, b \in BigD}
  \cup {<<SegT(a + 1, 0, <<0, 1, 0, -1>>), SegT(a + 1 + b, 0, <<0, 1, 0, -1>>)>> : a \in {0, 1, 31, 32}, b \in {0, 1, 33}}

CodecProg(segs) ==
  Prog(<<[op |-> "codec", segs |-> segs], [op |-> "lines_encode", segs |-> segs]>>)

(* grammar strings the crate's own encoder never produces                   *)
Redundant(ds) ==
  [ds EXCEPT ![Len(ds)] = B64Char(B64Val(ds[Len(ds)]) + 32)] \o <<65>>
Dg(delta, red) == IF red THEN Redundant(Digits(delta)) ELSE Digits(delta)

(* like Vlq!EncStep, with a per-segment choice of spelling and extra        *)
(* characters (empty segments) in front; columns may go backwards           *)
SpellStep(st, s) ==
  LET semis == [i \in 1..(s.gl - st.line) |-> SEMI]
      newline == s.gl > st.line
      sep == IF newline \/ st.first THEN <<>> ELSE <<COMMA>>
      gc0 == IF newline THEN 0 ELSE st.gc
      head == semis \o sep \o s.pre \o Dg(s.gc - gc0, s.red)
  IN IF s.si < 0
       THEN [st EXCEPT !.line = s.gl, !.gc = s.gc, !.first = FALSE, !.out = st.out \o head]
       ELSE
         LET body == Dg(s.si - st.si, s.red) \o Dg(s.ol - st.ol, s.red)
                       \o Dg(s.oc - st.oc, s.red)
                       \o (IF s.ni >= 0 THEN Dg(s.ni - st.ni, s.red) ELSE <<>>)
         IN [st EXCEPT !.line = s.gl, !.gc = s.gc, !.first = FALSE, !.si = s.si,
                       !.ol = s.ol, !.oc = s.oc,
                       !.ni = IF s.ni >= 0 THEN s.ni ELSE st.ni,
                       !.out = st.out \o head \o body]
Spell(segs) == FoldLeft(SpellStep, EncInit, segs).out

GSeg(gl, gc, o, red, pre) ==
  [gl |-> gl, gc |-> gc, si |-> o[1], ol |-> o[2], oc |-> o[3], ni |-> o[4], red |-> red, pre |-> pre]
GOrigs == {<<-1, 0, 0, -1>>, <<0, 1, 0, -1>>, <<1, 2, 16, -1>>, <<0, 1, 16, 1>>, <<1, 1, 0, 0>>}
GFirst == {GSeg(gl, gc, o, red, <<>>) : gl \in {1, 2}, gc \in {0, 1, 17}, o \in GOrigs, red \in BOOLEAN}
GSecond(f) ==
  {GSeg(gl, gc, o, red, pre) : gl \in {f.gl, f.gl + 2}, gc \in {0, 1, 16},
     o \in {<<-1, 0, 0, -1>>, <<0, 1, 0, -1>>, <<1, 3, 2, 0>>}, red \in BOOLEAN,
     pre \in {<<>>, <<COMMA>>}}
CommaBeforeSemi(str) ==
  {SubSeq(str, 1, i - 1) \o c \o SubSeq(str, i, Len(str)) :
     i \in {j \in 1..Len(str) : str[j] = SEMI}, c \in {<<COMMA>>, <<COMMA, COMMA>>}}
GrammarStrings ==
  {Spell(<<f>>) : f \in GFirst}
  \cup UNION {{Spell(<<f, g>>) : g \in GSecond(f)} : f \in GFirst}
  \cup {pre \o Spell(<<f, g>>) \o suf :
          f \in {GSeg(1, 1, <<0, 1, 0, -1>>, FALSE, <<>>), GSeg(2, 0, <<1, 2, 16, 0>>, TRUE, <<>>)},
          g \in {GSeg(2, 0, <<-1, 0, 0, -1>>, FALSE, <<>>), GSeg(2, 5, <<0, 1, 0, -1>>, FALSE, <<COMMA>>)},
          pre \in {<<>>, <<COMMA>>, <<SEMI>>, <<SEMI, SEMI>>, <<COMMA, COMMA>>},
          suf \in {<<>>, <<COMMA>>, <<SEMI>>, <<SEMI, COMMA>>}}
  \cup {<<>>, <<SEMI>>, <<COMMA>>, <<SEMI, SEMI, SEMI>>}
  \* an empty segment directly in front of a line end (a trailing comma on a line that has left column 0):
  \* the next line starts at column 0 all the same
  \cup UNION {UNION {CommaBeforeSemi(Spell(<<f, g>>)) : g \in GSecond(f)} : f \in GFirst}

VlqBatches(bound, size) ==
  {Prog(<<[op |-> "vlq_batch", lo |-> lo, hi |-> lo + size - 1, base |-> 1048576]>>) :
     lo \in {x \in (0 - bound)..(bound - 1) : (x + bound) % size = 0}}

C12Scope ==
  IF Scope # "c12" THEN {} ELSE
  {CodecProg(<<a>>) : a \in C12Segs}
  \cup {CodecProg(<<p[1], p[2]>>) : p \in {q \in C12Segs \X C12Segs : SegLe6(q[1], q[2])}}
  \cup {CodecProg(<<p[1], p[2], p[3]>>) :
          p \in {q \in C12SlimSegs \X C12SlimSegs \X C12SlimSegs :
                   SegLe6(q[1], q[2]) /\ SegLe6(q[2], q[3])}}
  \cup {CodecProg(p) : p \in BigPairs}
  \cup {Prog(<<[op |-> "decode", m |-> g]>>) : g \in GrammarStrings}
  \cup VlqBatches(1024, 512)

C12VlqScope == IF Scope # "c12vlq" THEN {} ELSE VlqBatches(1048576, 4096)

-----------------------------------------------------------------------------
(* CachedSource transparency (C10): call histories on a wrapper (r0), a     *)
(* clone of it (r2) and a parent containing it (r3); the wrapped tree stays *)
(* uncached in r1 (and in the parent's counterpart r4)                      *)
C10Inners ==
  {Orig(<<cA, cSC, NL, cA>>), SmsA,
   CC(<<Orig(<<cA>>), Raw("str", <<cB, NL>>), SmsB>>),
   Replace(Orig(<<cA, cA, cSC, NL, cA>>), <<Repl(1, 2, <<cX, NL>>)>>),
   Raw("str", <<cA, cB, NL>>),
   Cached(Orig(<<cA, NL, cB>>)),
   \* mapped text that is blank lines only: no map with columns, a map without
   Orig(<<NL, NL>>), CC(<<Raw("str", <<cB, NL>>), Orig(<<NL>>)>>),
   \* a line that starts mapped and ends unmapped, mapped lines after it (the replay has to report
   \* the unmapped rest of the line where it starts)
   CC(<<Orig(<<cA>>), Raw("str", <<cB, NL>>), Orig(<<cA, NL, cB>>)>>)}

ObsOn(op, r) == [op |-> op, r |-> r]
StreamOn(r, c) == [op |-> "stream", r |-> r, columns |-> c, final |-> FALSE]
MapOn(r, c) == [op |-> "map", r |-> r, columns |-> c]
HashOn(r) == [op |-> "hash", r |-> r, h |-> "twox"]

C10Calls ==
  {ObsOn("source", 0), ObsOn("buffer", 0), ObsOn("size", 0), HashOn(0), HashOn(2)}
  \cup {MapOn(r, c) : r \in {0, 2, 3}, c \in BOOLEAN}
  \cup {StreamOn(r, c) : r \in {0, 2}, c \in BOOLEAN}

C10Prefix(x) ==
  <<[op |-> "build", dst |-> 1, tree |-> x],
    ObsOn("source", 1), StreamOn(1, TRUE), StreamOn(1, FALSE), MapOn(1, TRUE), MapOn(1, FALSE),
    [op |-> "build", dst |-> 4, tree |-> CC(<<x, Raw("str", <<cX>>)>>)],
    ObsOn("source", 4), MapOn(4, TRUE), MapOn(4, FALSE),
    [op |-> "build", dst |-> 0, tree |-> [k |-> "cached", cid |-> 7, inner |-> x]],
    [op |-> "clone", dst |-> 2, src |-> 0],
    [op |-> "build", dst |-> 3, tree |-> CC(<<[k |-> "reg", r |-> 0], Raw("str", <<cX>>)>>)],
    [op |-> "law", law |-> "ref", cached |-> <<0, 2>>, pure |-> 1],
    [op |-> "law", law |-> "ref", cached |-> <<3>>, pure |-> 4]>>

C10Final ==
  <<ObsOn("source", 2), StreamOn(2, TRUE), StreamOn(0, FALSE), MapOn(0, TRUE), MapOn(2, FALSE),
    MapOn(3, TRUE), MapOn(3, FALSE), HashOn(0)>>

C10Scope ==
  IF Scope \notin {"c10", "c10full"} THEN {} ELSE
  LET n == IF Scope = "c10" THEN 2 ELSE 3
      xs == IF Scope = "c10" THEN C10Inners
            ELSE {Orig(<<cA, cSC, NL, cA>>), SmsA,
                  CC(<<Orig(<<cA>>), Raw("str", <<cB, NL>>), SmsB>>)}
  IN UNION {{Prog(C10Prefix(x) \o h \o C10Final) : h \in UNION {[1..k -> C10Calls] : k \in 0..n}} :
              x \in xs}
     \cup (IF Scope = "c10"
            THEN UNION {{Prog(C10Prefix(x) \o h \o C10Final) : h \in [1..3 -> C10Calls]} :
                         x \in {CC(<<Orig(<<cA>>), Raw("str", <<cB, NL>>), SmsB>>)}}
            ELSE {})

-----------------------------------------------------------------------------
(* identity (C14) and hashing (C20): base trees of every kind and all trees *)
(* one edit away                                                            *)
ReplNm(s, e, c, n, enf) == [s |-> s, e |-> e, c |-> c, n |-> n, enf |-> enf, api |-> "replace_enf"]
SmsInner ==
  [k |-> "sms", b |-> <<cA, cB>>, name |-> InnerName,
   map |-> [m |-> EncodeSegs(<<Seg(1, 0, <<0, 1, 0, -1>>), Seg(1, 1, <<1, 1, 0, -1>>)>>),
            sources |-> <<InnerName, FileA>>, contents |-> <<<<>>, ContentA>>,
            names |-> <<Name1>>, root |-> <<>>, file |-> <<>>, dbg |-> <<>>],
   inner |-> <<[m |-> EncodeSegs(<<Seg(1, 0, <<0, 1, 1, 0>>)>>), sources |-> <<FileB>>,
               contents |-> <<ContentB>>, names |-> <<Name0>>,
               root |-> <<>>, file |-> <<>>, dbg |-> <<>>]>>,
   osrc |-> <<InnerX>>, remove |-> FALSE]

(* the same without an explicit original source: the text of the inner     *)
(* source is the outer map's sourcesContent entry, and the inner map still  *)
(* applies                                                                  *)
SmsInnerFromContent ==
  [SmsInner EXCEPT !.osrc = <<>>, !.map.contents = <<InnerX, ContentA>>]

BaseTrees ==
  {[k |-> "orig", b |-> <<cA, cB>>, name |-> <<115, 47, 97, 92, 98, 46, 106, 115>>],       \* "s/a\b.js"
   CC(<<Raw("str", <<cA>>), [k |-> "orig", b |-> <<cB>>, name |-> <<99, 58, 92, 97, 46, 106, 115>>]>>),   \* "c:\a.js"
   SmsInnerFromContent, CC(<<Raw("str", <<cA>>), Cached(SmsInnerFromContent)>>),
   Raw("str", <<cA, cB>>), Raw("buf", <<cA, cB>>), Raw("rawstr", <<cA, cB>>),
   Raw("rawbuf", <<cA, cB>>), Raw("rawbuf", <<255, cA>>), Orig(<<cA, cSC, NL, cB>>), SmsA, SmsInner,
   \* a text leaf that really contains U+FFFD and binary leaves whose lossy text is the same: same source(),
   \* different buffer() - they must not compare equal
   Raw("str", <<239, 191, 189, cA>>), Raw("buf", <<255, cA>>), Raw("rawstr", <<239, 191, 189, cA>>),
   CC(<<Orig(<<cA>>), Raw("str", <<cB>>), SmsB>>),
   Replace(Orig(<<cA, cA, cSC, NL, cA>>),
           <<ReplNm(1, 2, <<cX>>, <<NameRn>>, 1), ReplNm(3, 3, <<cX, NL>>, <<>>, 1)>>),
   Cached(CC(<<Orig(<<cA, NL>>), Raw("str", <<cB>>)>>)),
   Box(Orig(<<cA, cB>>)),
   CC(<<Replace(Orig(<<cA, cB, cA>>), <<ReplNm(1, 1, <<cX>>, <<>>, 0), ReplNm(1, 1, <<cB>>, <<>>, 2)>>),
        Cached(Orig(<<cA, NL, cB>>))>>),
   Replace(CC(<<Orig(<<cA, cB>>), Raw("rawstr", <<cA>>)>>), <<ReplNm(1, 3, <<>>, <<>>, 1)>>),
   \* empty children still matter: an empty OriginalSource announces its file
   CC(<<Orig(<<>>), Orig(<<cA, NL>>)>>),
   CC(<<Orig(<<cA>>), Cached(Orig(<<>>)), Raw("str", <<>>)>>),
   Replace(Orig(<<>>), <<ReplNm(0, 0, <<cX>>, <<>>, 1)>>)}

TextEdits(b) == {b \o <<cX>>, <<cX>> \o b} \cup (IF b = <<>> THEN {} ELSE {Take(b, Len(b) - 1)})
SubKinds == {"str", "buf", "rawstr", "rawbuf"}

MapEdits(m) ==
  {[m EXCEPT !.m = @ \o <<SEMI>> \o EncodeSegs(<<Seg(1, 0, <<0, 1, 0, -1>>)>>)],
   [m EXCEPT !.m = <<>>],
   [m EXCEPT !.sources = [i \in 1..Len(@) |-> IF i = 1 THEN @[i] \o <<cX>> ELSE @[i]]],
   [m EXCEPT !.sources = Append(@, FileB)],
   [m EXCEPT !.contents = IF @ = <<>> THEN <<<<cX>>>> ELSE [i \in 1..Len(@) |-> IF i = 1 THEN @[i] \o <<cX>> ELSE @[i]]],
   [m EXCEPT !.names = Append(@, NameRn)],
   [m EXCEPT !.root = <<<<114>>>>],
   [m EXCEPT !.file = <<<<cX, 46, 106, 115>>>>],
   [m EXCEPT !.dbg = <<<<100, 49>>>>]}

MaxN(a, b) == IF a > b THEN a ELSE b

RECURSIVE Edits(_)
Edits(t) ==
  CASE t.k = "raw" ->
         {[t EXCEPT !.b = e] : e \in TextEdits(t.b)}
         \cup {[t EXCEPT !.sub = x] : x \in SubKinds \ {t.sub}}
    [] t.k = "orig" ->
         {[t EXCEPT !.b = e] : e \in TextEdits(t.b)}
         \cup {[t EXCEPT !.name = @ \o <<cX>>]}
         \* spellings that a well-meant normalisation would identify: the other
         \* path separator, the other case, a trailing blank
         \cup {[t EXCEPT !.name = [i \in 1..Len(@) |-> IF @[i] = 47 THEN 92 ELSE IF @[i] = 92 THEN 47 ELSE @[i]]],
               [t EXCEPT !.name = [i \in 1..Len(@) |-> IF @[i] >= 97 /\ @[i] <= 122 THEN @[i] - 32 ELSE @[i]]],
               [t EXCEPT !.name = @ \o <<32>>]}
    [] t.k = "sms" ->
         {[t EXCEPT !.b = e] : e \in TextEdits(t.b)}
         \cup {[t EXCEPT !.map = e] : e \in MapEdits(t.map)}
         \cup (IF t.inner = <<>> THEN {}
               ELSE {[t EXCEPT !.inner = <<e>>] : e \in MapEdits(t.inner[1])}
                    \cup {[t EXCEPT !.osrc = IF @ = <<>> THEN <<<<cX>>>> ELSE <<@[1] \o <<cX>>>>],
                          [t EXCEPT !.remove = ~@]})
    [] t.k = "concat" ->
         {[t EXCEPT !.ch = RemoveAt(@, i)] : i \in 1..Len(t.ch)}
         \cup {[t EXCEPT !.ch = Append(@, Raw("str", <<cX>>))], [t EXCEPT !.ch = Reverse(@)]}
         \cup UNION {{[t EXCEPT !.ch[i] = e] : e \in Edits(t.ch[i])} : i \in 1..Len(t.ch)}
    [] t.k = "replace" ->
         UNION {{[t EXCEPT !.repls[i].s = @ + 1, !.repls[i].e = MaxN(t.repls[i].e, t.repls[i].s + 1)],
                 [t EXCEPT !.repls[i].e = @ + 1],
                 [t EXCEPT !.repls[i].c = @ \o <<cX>>],
                 [t EXCEPT !.repls[i].n = IF @ = <<>> THEN <<Name0>> ELSE <<>>],
                 [t EXCEPT !.repls[i].enf = (@ + 1) % 3]} : i \in 1..Len(t.repls)}
         \cup {[t EXCEPT !.repls = RemoveAt(@, i)] : i \in 1..Len(t.repls)}
         \cup {[t EXCEPT !.repls = Append(@, ReplNm(0, 0, <<cX>>, <<>>, 1))],
               [t EXCEPT !.repls = Reverse(@)]}
         \cup {[t EXCEPT !.inner = e] : e \in Edits(t.inner)}
    [] t.k \in {"cached", "box"} -> {[t EXCEPT !.inner = e] : e \in Edits(t.inner)}
    [] OTHER -> {}

ObsPair(r) ==
  <<ObsOn("source", r), ObsOn("buffer", r), MapOn(r, TRUE), MapOn(r, FALSE), HashOn(r),
    [op |-> "hash", r |-> r, h |-> "feed"]>>
EqStep(a, b) == [op |-> "eq", a |-> a, b |-> b]

EditPairProg(t, e) ==
  Prog(<<[op |-> "build", dst |-> 0, tree |-> t], [op |-> "build", dst |-> 1, tree |-> e]>>
       \o ObsPair(0) \o ObsPair(1)
       \o <<EqStep(0, 1), EqStep(1, 0), [op |-> "law", law |-> "edit_pair", a |-> 0, b |-> 1],
            [op |-> "hash_tree", tree |-> t]>>)

C20Scope ==
  IF Scope # "c20" THEN {} ELSE
  UNION {{EditPairProg(t, e) : e \in Edits(t) \ {t}} : t \in BaseTrees}
  \cup {EditPairProg(p[1], p[2]) : p \in {q \in BaseTrees \X BaseTrees : q[1] # q[2]}}

C14Obs ==
  {<<ObsOn("source", 0)>>, <<MapOn(0, TRUE)>>, <<MapOn(0, FALSE)>>, <<StreamOn(0, TRUE)>>,
   <<HashOn(0)>>, <<ObsOn("size", 0)>>, <<ObsOn("buffer", 0)>>, <<ObsOn("rope", 0)>>,
   <<[op |-> "clone", dst |-> 3, src |-> 0], ObsOn("source", 3)>>}

C14Same(t, o1, o2) ==
  Prog(<<[op |-> "build", dst |-> 0, tree |-> t], [op |-> "build", dst |-> 1, tree |-> t],
         EqStep(0, 1), EqStep(1, 0), HashOn(0), HashOn(1)>>
       \o o1 \o <<EqStep(0, 1)>> \o o2 \o <<EqStep(0, 1), EqStep(1, 0), HashOn(0)>>
       \o <<[op |-> "clone", dst |-> 2, src |-> 0], EqStep(0, 2), EqStep(2, 1), HashOn(2),
            ObsOn("source", 0), ObsOn("source", 2), ObsOn("source", 1),
            MapOn(0, TRUE), MapOn(2, TRUE), MapOn(1, TRUE), MapOn(0, TRUE),
            StreamOn(0, TRUE), StreamOn(0, TRUE), ObsOn("size", 0), ObsOn("size", 0),
            EqStep(0, 2), EqStep(0, 1)>>)

C14Differ(t, e, o1) ==
  Prog(<<[op |-> "build", dst |-> 0, tree |-> t], [op |-> "build", dst |-> 1, tree |-> e],
         EqStep(0, 1), EqStep(1, 0)>> \o o1
       \o <<EqStep(0, 1), EqStep(1, 0), HashOn(0), HashOn(1), ObsOn("source", 0),
            ObsOn("source", 1), MapOn(0, TRUE), MapOn(1, TRUE),
            ObsOn("buffer", 0), ObsOn("buffer", 1), ObsOn("size", 0), ObsOn("size", 1), EqStep(0, 1)>>)

(* equal call sequences, different observer histories: r0 is observed between *)
(* the mutating calls (its lazily sorted index is valid when the next call    *)
(* arrives), r1 is not                                                        *)
C14Keys == {<<0, 1>>, <<1, 2>>, <<2, 3>>, <<1, 1>>}
C14Mut(r, k, p, api) ==
  [op |-> "replace", r |-> r, s |-> p[1], e |-> p[2], c |-> <<cX + k>>,
   n |-> <<>>, enf |-> 1, api |-> api]
C14Between == {<<>>, <<ObsOn("source", 0)>>, <<HashOn(0)>>}
C14Hist(p, b, api) ==
  LET t == Replace(Orig(<<cA, cB, 99, NL, cA>>), <<>>)
  IN Prog(<<[op |-> "build", dst |-> 0, tree |-> t], [op |-> "build", dst |-> 1, tree |-> t],
            C14Mut(0, 1, p[1], api)>> \o b[1] \o <<C14Mut(0, 2, p[2], api)>> \o b[2]
          \o <<C14Mut(0, 3, p[3], api),
               C14Mut(1, 1, p[1], api), C14Mut(1, 2, p[2], api), C14Mut(1, 3, p[3], api),
               EqStep(0, 1), EqStep(1, 0), HashOn(0), HashOn(1),
               ObsOn("source", 0), ObsOn("source", 1), ObsOn("buffer", 0), ObsOn("buffer", 1),
               ObsOn("size", 0), ObsOn("size", 1), MapOn(0, TRUE), MapOn(1, TRUE),
               MapOn(0, FALSE), MapOn(1, FALSE), EqStep(0, 1)>>)
C14HistScope ==
  {C14Hist(p, b, api) : p \in [1..3 -> C14Keys], b \in [1..2 -> C14Between],
                        api \in {"replace", "replace_enf"}}

C14Scope ==
  IF Scope # "c14" THEN {} ELSE
  C14HistScope \cup
  {C14Same(t, o1, o2) : t \in BaseTrees, o1 \in C14Obs, o2 \in C14Obs}
  \* wrapped pairs one edit apart, with the hash memo of one or both filled
  \cup UNION {{C14Differ(Cached(t), Cached(e), o1) :
                 e \in Edits(t) \ {t},
                 o1 \in {<<HashOn(0)>>, <<HashOn(0), HashOn(1)>>, <<HashOn(1), ObsOn("source", 0)>>}} :
               t \in BaseTrees}
  \cup UNION {{C14Differ(Box(Cached(Box(t))), Box(Cached(Box(e))), <<HashOn(0), HashOn(1)>>) :
                 e \in Edits(t) \ {t}} : t \in BaseTrees}
  \cup UNION {{C14Differ(t, e, o1) : e \in Edits(t) \ {t}, o1 \in {<<>>, <<ObsOn("source", 0)>>, <<HashOn(0)>>}} :
               t \in BaseTrees}
  \* all pairs of base trees (among them leaves with the same lossy text and different bytes, the same
  \* bytes held as text and as buffer): whatever compares equal must answer every observer alike
  \cup {C14Differ(q[1], q[2], <<>>) : q \in {q \in BaseTrees \X BaseTrees : q[1] # q[2]}}

-----------------------------------------------------------------------------
(* SourceMap JSON (C15): strings over quotes, backslashes, control          *)
(* characters, U+2028/2029, a 2-byte and an astral character (as UTF-8)     *)
U2028 == <<226, 128, 168>>
U2029 == <<226, 128, 169>>
UE9 == <<195, 169>>
U1F600 == <<240, 159, 152, 128>>
JStrings ==
  {<<>>, <<cA>>, <<34>>, <<92>>, <<0>>, <<31>>, <<127>>, U2028, U2029, UE9, U1F600,
   <<cA, 34, cB, 92, 92, 34>>, <<92, 110, 10, 13, 9, 8, 12>>,
   <<34>> \o U2028 \o <<0>> \o U1F600 \o <<92>> \o UE9 \o <<127, 31>> \o U2029}
JSeqs == UNION {[1..k -> JStrings] : k \in 0..2}
JOpt == {<<>>} \cup {<<x>> : x \in JStrings}
JMap(m, sources, contents, names, root, file, dbg) ==
  [m |-> m, sources |-> sources, contents |-> contents, names |-> names,
   root |-> root, file |-> file, dbg |-> dbg]
ToJsonProg(v) == Prog(<<[op |-> "to_json", map |-> v]>>)
AAAA == <<65, 65, 65, 65>>

C15Values ==
  {JMap(AAAA, s, c, <<>>, <<>>, <<>>, <<>>) :
     s \in JSeqs, c \in {<<>>, <<<<>>>>, <<<<>>, <<>>>>, <<<<cX>>>>, <<<<>>, <<cX>>>>}}
  \cup {JMap(AAAA, <<<<cA>>>>, c, <<>>, <<>>, <<>>, <<>>) : c \in JSeqs}
  \cup {JMap(AAAA, <<<<cA>>>>, <<>>, n, <<>>, <<>>, <<>>) : n \in JSeqs}
  \cup {JMap(m, <<<<cA>>>>, <<<<cX>>>>, <<<<cB>>>>, ro, f, d) :
          m \in {<<>>, AAAA, <<SEMI, SEMI>>, <<34, 92>>}, ro \in {<<>>, <<<<>>>>, <<<<114, 47>>>>},
          f \in {<<>>, <<<<34>>>>}, d \in {<<>>, <<U2028>>}}
  \cup {JMap(AAAA, <<>>, <<>>, <<>>, ro, f, d) : ro \in JOpt, f \in {<<>>, <<<<cA>>>>}, d \in {<<>>, <<<<cB>>>>}}
  \cup {JMap(AAAA, <<>>, <<>>, <<>>, <<>>, f, d) : f \in JOpt, d \in JOpt}

(* documents with nulls, missing arrays and reordered keys                  *)
DocEntrySets == {<<>>, <<<<>>>>, <<<<<<cA>>>>>>, <<<<>>, <<<<cB>>>>>>, <<<<U2028>>, <<>>, <<<<34>>>>>>}
DocField(k, kind, v) == <<k, kind, v>>
DocBase(src, cont, nms) ==
  <<DocField("version", "num", 3), DocField("sources", "strs", src),
    DocField("sourcesContent", "strs", cont), DocField("names", "strs", nms),
    DocField("mappings", "str", AAAA), DocField("file", "str", <<cA>>),
    DocField("sourceRoot", "str", <<114>>), DocField("debugId", "str", <<100>>)>>
DropKeys(fs, K) == SelectSeq(fs, LAMBDA fld : fld[1] \notin K)
DocProg(fs) == Prog(<<[op |-> "parse_doc", fields |-> fs]>>)
DocKeys == {"version", "sources", "sourcesContent", "names", "mappings", "file", "sourceRoot", "debugId"}

C15Docs ==
  {DocProg(DocBase(a, b, c)) : a \in DocEntrySets, b \in DocEntrySets, c \in DocEntrySets}
  \cup {DocProg(DropKeys(DocBase(<<<<<<cA>>>>>>, <<<<>>>>, <<>>), K)) : K \in SUBSET DocKeys}
  \cup {DocProg(Reverse(DropKeys(DocBase(<<<<>>, <<<<cA>>>>>>, <<<<<<cX>>>>>>, <<<<>>>>), K))) :
          K \in {KK \in SUBSET DocKeys : Cardinality(KK) <= 2}}
  \cup {DocProg(<<DocField("mappings", kind, 0)>>) : kind \in {"num", "null"}}
  \cup {DocProg(<<DocField("sources", "null", 0), DocField("mappings", "str", <<>>),
                  DocField("names", "null", 0), DocField("file", "null", 0),
                  DocField("x", "strs", <<<<>>>>)>>)}

(* SourceMap::to_writer against every writer script of IoM, for a few values *)
C15ScriptValues ==
  {JMap(AAAA, <<<<cA>>>>, <<<<cX>>>>, <<<<cB>>>>, <<>>, <<>>, <<>>),
   JMap(<<SEMI, SEMI>>, <<>>, <<>>, <<>>, <<<<114, 47>>>>, <<<<34>>>>, <<U2028>>),
   JMap(<<>>, <<>>, <<>>, <<>>, <<>>, <<>>, <<>>)}
C15Scope ==
  IF Scope # "c15" THEN {} ELSE
  {ToJsonProg(v) : v \in C15Values} \cup C15Docs
  \cup {Prog(<<[op |-> "to_json", map |-> v, scripts |-> SetToSeq(ScriptsUpTo(3))]>>) : v \in C15ScriptValues}

-----------------------------------------------------------------------------
(* ropes (C16): pairs of rope expressions over a piece table that contains  *)
(* the empty string, line breaks and 1-4 byte characters                    *)
RopePieces == <<<<>>, <<cA>>, <<NL>>, <<cA, NL>>, UE9, U1F600, <<cA, cB>>, <<cB, NL, 99>>>>
RNew == <<"new">>
RFrom(p) == <<"from", p>>
RIter(ps) == <<"from_iter", ps>>
RAdd(e, p) == <<"add", e, p>>
RApp(e, f) == <<"append", e, f>>
RSlice(e, a, b) == <<"slice", e, a, b>>
RLine(e, k) == <<"line", e, k>>

RECURSIVE RLen(_)
RLen(e) ==
  CASE e[1] = "new" -> 0
    [] e[1] = "from" -> Len(RopePieces[e[2] + 1])
    [] e[1] = "from_iter" -> Len(FlattenSeq([i \in 1..Len(e[2]) |-> RopePieces[e[2][i] + 1]]))
    [] e[1] = "add" -> RLen(e[2]) + Len(RopePieces[e[3] + 1])
    [] e[1] = "append" -> RLen(e[2]) + RLen(e[3])
    [] OTHER -> 0

RE0Slim ==
  {RNew, RFrom(1), RFrom(3), RFrom(4), RIter(<<>>), RIter(<<1, 4>>), RIter(<<0, 1>>),
   RIter(<<3, 5, 2>>), RIter(<<4>>), RAdd(RNew, 0), RAdd(RNew, 1),
   RIter(<<7, 1>>), RIter(<<1, 7, 4>>)}
RE0 ==
  {RNew} \cup {RFrom(p) : p \in 0..7}
  \cup {RIter(ps) : ps \in UNION {[1..k -> 0..5] : k \in 0..2}}
RE1 ==
  RE0
  \cup {RAdd(e, p) : e \in RE0Slim, p \in {0, 1, 2, 4}}
  \cup {RApp(e, f) : e \in RE0Slim, f \in RE0Slim}
  \cup UNION {{RSlice(e, q[1], q[2]) : q \in {w \in (0..(RLen(e) + 1)) \X (0..(RLen(e) + 1)) : w[1] <= w[2]}} :
                e \in RE0Slim}
  \cup {RLine(e, k) : e \in RE0Slim, k \in 0..2}
RE2 ==
  LET x == RApp(RIter(<<1, 4>>), RFrom(3))
      y == RApp(RAdd(RNew, 2), RIter(<<5, 0, 1>>))
  IN {RSlice(z, q[1], q[2]) : z \in {x, y}, q \in {w \in (0..8) \X (0..8) : w[1] <= w[2]}}
     \cup {RApp(RLine(RIter(<<3, 5, 2>>), k), RAdd(RNew, 1)) : k \in 0..2}
     \cup {RApp(RSlice(RFrom(6), 1, 2), RSlice(RIter(<<1, 4>>), 1, 3)),
           RAdd(RApp(RNew, RAdd(RNew, 0)), 0),
           RSlice(RApp(RFrom(6), RAdd(RNew, 2)), 0, 2),
           RApp(RApp(RFrom(6), RAdd(RNew, 0)), RFrom(1))}

RopeProg(a, b) ==
  [kind |-> "rope", pieces |-> RopePieces,
   steps |-> <<[op |-> "rope_obs", a |-> a, b |-> b]>>]

(* the same text divided into pieces in two different ways (every set of    *)
(* interior character boundaries), built by from_iter or by a chain of add: *)
(* binary observers must not see the division                               *)
ResplitTexts == {<<cA, cB, 99, 100>>, <<cA, 195, 169, cB>>, <<cA, NL, cB, 99>>}
InteriorBounds(t) == {i \in 1..(Len(t) - 1) : i \in Boundaries(t)}
PiecesOf(t, cuts) ==
  LET cs == SetToSortSeq(cuts \cup {Len(t)}, <)
  IN [k \in 1..Len(cs) |-> SubSeq(t, IF k = 1 THEN 1 ELSE cs[k - 1] + 1, cs[k])]
RECURSIVE AddChain(_, _)
AddChain(base, n) == IF n = 0 THEN RNew ELSE RAdd(AddChain(base, n - 1), base + n - 1)
ResplitProgs ==
  UNION {
    {LET p == PiecesOf(t, c1)
         q == PiecesOf(t, c2)
         ea == IF how[1] THEN RIter([k \in 1..Len(p) |-> k - 1]) ELSE AddChain(0, Len(p))
         eb == IF how[2] THEN RIter([k \in 1..Len(q) |-> Len(p) + k - 1]) ELSE AddChain(Len(p), Len(q))
     IN [kind |-> "rope", pieces |-> p \o q, steps |-> <<[op |-> "rope_obs", a |-> ea, b |-> eb]>>]
     : c1 \in SUBSET InteriorBounds(t), c2 \in SUBSET InteriorBounds(t), how \in BOOLEAN \X BOOLEAN}
    : t \in ResplitTexts}

C16Scope ==
  IF Scope \notin {"c16", "c16full"} THEN {} ELSE
  ResplitProgs \cup
  LET big == RE1 \cup RE2
      small == IF Scope = "c16" THEN RE0Slim ELSE RE0
  IN {RopeProg(a, b) : a \in big, b \in small} \cup {RopeProg(a, b) : a \in small, b \in big}

(* size of buffer() is not known to the generator; writers are placed at    *)
(* every budget up to a bound that covers these small trees                 *)
ProgSet ==
  CASE Scope \in {"c01", "c02"} -> {Prog(<<Build(t)>> \o StreamObs) : t \in TreesSmall}
    [] Scope = "c05" -> Hist2 \cup Hist3 \cup HistTwice
    [] Scope = "c13" -> LawScope \cup LawScopeNamed \cup LawScopeTwice
    \* the content views of composite trees whose replacements sit on character boundaries
    \* (the c07 scope without its binary leaves: a position inside a character is outside C17's domain)
    [] Scope = "c17" -> C17Scope \cup {Prog(<<Build(t)>> \o ViewObs(9)) :
                                        t \in Pairs \cup ReplOverLeaf2 \cup Wrapped \cup ManyPieces \cup ResliceTrees}
    [] Scope = "c04" -> C04Scope
    [] Scope = "c06" -> C06Scope
    [] Scope = "c06r" -> C06RScope
    [] Scope = "c08" -> C08Scope
    [] Scope = "c12" -> C12Scope
    [] Scope \in {"c16", "c16full"} -> C16Scope
    [] Scope = "c15" -> C15Scope
    [] Scope = "c14" -> C14Scope
    [] Scope = "c20" -> C20Scope
    [] Scope \in {"c10", "c10full"} -> C10Scope
    [] Scope = "c12vlq" -> C12VlqScope
    \* the whole u32 range of the fields (VlqW.tla): values and differences beyond TLC's integers
    [] Scope = "c12wide" -> {Prog(<<[op |-> "codec_wide", segs |-> p]>>) : p \in WPairs \cup WTriples}
    [] Scope \in {"c09", "c09full"} -> C09Scope
    [] Scope = "c07" -> {Prog(<<Build(t)>> \o ViewObs(9)) : t \in ViewTrees}
                        \* every writer script of IoM (answers to the first three calls) against a slim set of trees
                        \cup {Prog(<<Build(t), Obs("buffer")>> \o ScriptWriters) : t \in ScriptTrees}
    [] OTHER -> {}

VARIABLE prog
Init == prog \in ProgSet
Next == UNCHANGED prog
Spec == Init /\ [][Next]_prog

Emit == PrintT(<<"PROG", ToJson(prog)>>)
=============================================================================
