-------------------------------- MODULE DecM ---------------------------------
(***************************************************************************)
(* Implementation-shaped model of the mappings decoder (src/decoder.rs):    *)
(* one step per byte; the five running fields, the number of fields read in *)
(* the current segment, the value in progress and its shift.  Unlike the    *)
(* format (Vlq!DecodeState) it says what the code does with junk: bytes      *)
(* outside the alphabet are skipped, a segment with 2, 3 or more than 5      *)
(* fields is dropped although its deltas have been added to the running      *)
(* fields, a value left unfinished at a separator is continued by the next   *)
(* digits.  TLC integers are 32-bit: a run in which a value or a running      *)
(* field would leave [0, 2^30] sets `big`, and nothing is claimed about it.  *)
(* MC_DecM: on every string of the scope that the format accepts the model   *)
(* returns the format's segments; on every other string it returns something *)
(* (the decoder is total).                                                  *)
(***************************************************************************)
EXTENDS Naturals, Integers, Sequences, FiniteSets, SequencesExt, Text, Vlq

Lim == 1073741824      \* 2^30
Pow2(k) == CASE k = 0 -> 1 [] k = 5 -> 32 [] k = 10 -> 1024 [] k = 15 -> 32768 [] k = 20 -> 1048576
             [] k = 25 -> 33554432 [] OTHER -> 0

DecMInit == [data |-> <<0, 0, 1, 0, 0>>, pos |-> 0, val |-> 0, shift |-> 0, line |-> 1,
             out |-> <<>>, big |-> FALSE]

SegOfData(st, n) ==
  [gl |-> st.line, gc |-> st.data[1],
   si |-> IF n = 1 THEN -1 ELSE st.data[2], ol |-> IF n = 1 THEN 0 ELSE st.data[3],
   oc |-> IF n = 1 THEN 0 ELSE st.data[4], ni |-> IF n = 5 THEN st.data[5] ELSE -1]

EndSeg(st, newline) ==
  LET out == IF st.pos \in {1, 4, 5} THEN Append(st.out, SegOfData(st, st.pos)) ELSE st.out
      data == IF newline THEN [st.data EXCEPT ![1] = 0] ELSE st.data
  IN [st EXCEPT !.out = out, !.pos = 0, !.data = data,
                !.line = IF newline THEN st.line + 1 ELSE st.line]

DecMStep(st, c) ==
  IF c = COMMA THEN EndSeg(st, FALSE)
  ELSE IF c = SEMI THEN EndSeg(st, TRUE)
  ELSE LET v == B64Val(c) IN
    IF v < 0 THEN st                                   \* not in the alphabet: skipped
    ELSE
      LET bits == v % 32
          tooFar == bits # 0 /\ st.shift > 25
          val == IF bits = 0 \/ tooFar THEN st.val ELSE st.val + bits * Pow2(st.shift)
          big1 == st.big \/ tooFar \/ val >= Lim
      IN IF v >= 32
           THEN [st EXCEPT !.val = IF big1 THEN 0 ELSE val, !.shift = st.shift + 5, !.big = big1]
           ELSE \* last sextet
             LET final == IF val % 2 = 1 THEN 0 - (val \div 2) ELSE val \div 2
                 inField == st.pos < 5
                 sum == IF inField /\ ~big1 THEN st.data[st.pos + 1] + final ELSE 0
                 big2 == big1 \/ (inField /\ (sum < 0 \/ sum >= Lim))
             IN [st EXCEPT !.data = IF inField /\ ~big2 THEN [@ EXCEPT ![st.pos + 1] = sum] ELSE @,
                           !.pos = st.pos + 1, !.shift = 0, !.val = 0, !.big = big2]

DecodeM(chars) == EndSeg(FoldLeft(DecMStep, DecMInit, chars), FALSE)
=============================================================================
