-------------------------------- MODULE Attr --------------------------------
(***************************************************************************)
(* Attribution of output positions, by value.  Two sources of attribution   *)
(* are made comparable here:                                                *)
(*  - a recorded chunk stream (events S / N / C in delivery order), read    *)
(*    through that stream's own announcements;                              *)
(*  - a SourceMap value, decoded by Vlq.tla and read through its tables.    *)
(* Both become either a per-byte sequence of attribution records (SMap.tla) *)
(* or a per-line sequence of (mapped, file, line).                          *)
(***************************************************************************)
EXTENDS Naturals, Integers, Sequences, FiniteSets, SequencesExt,
        FiniteSetsExt, Functions, Text, Vlq, SMap

PutF(f, k, v) == [x \in DOMAIN f \cup {k} |-> IF x = k THEN v ELSE f[x]]
EmptyF == [x \in {} |-> 0]

EvText(e) == IF e.x = <<>> THEN <<>> ELSE e.x[1]

(* attribution a chunk event carries, given the announcements seen so far   *)
EvAttr(e, stab, ntab) ==
  IF e.o = <<>> THEN Unmapped
  ELSE LET si == e.o[1]
           ni == e.o[4]
           known == si \in DOMAIN stab
       IN [m |-> TRUE,
           f |-> IF known THEN stab[si].f ELSE BadIndex,
           hc |-> IF known THEN stab[si].hc ELSE FALSE,
           ct |-> IF known THEN stab[si].ct ELSE <<>>,
           l |-> e.o[2], c |-> e.o[3],
           hn |-> ni >= 0,
           n |-> IF ni < 0 THEN <<>>
                 ELSE IF ni \in DOMAIN ntab THEN ntab[ni] ELSE BadIndex]

(* the chunks of a stream with their attribution by value:                  *)
(* sequence of [x, gl, gc, a]                                               *)
StreamChunks(evs) ==
  LET step(acc, e) ==
        CASE e.t = "S" ->
               <<PutF(acc[1], e.i,
                      [f |-> e.name, hc |-> e.c # <<>> /\ e.c # <<<<>>>>,
                       ct |-> IF e.c = <<>> THEN <<>> ELSE e.c[1]]),
                 acc[2], acc[3]>>
          [] e.t = "N" -> <<acc[1], PutF(acc[2], e.i, e.name), acc[3]>>
          [] OTHER ->
               <<acc[1], acc[2],
                 Append(acc[3], [x |-> EvText(e), gl |-> e.gl, gc |-> e.gc,
                                 a |-> EvAttr(e, acc[1], acc[2])])>>
  IN FoldLeft(step, <<EmptyF, EmptyF, <<>>>>, evs)[3]

(* announced tables at the end of a stream                                  *)
StreamTables(evs) ==
  LET step(acc, e) ==
        CASE e.t = "S" ->
               <<PutF(acc[1], e.i,
                      [f |-> e.name, hc |-> e.c # <<>> /\ e.c # <<<<>>>>,
                       ct |-> IF e.c = <<>> THEN <<>> ELSE e.c[1]]), acc[2]>>
          [] e.t = "N" -> <<acc[1], PutF(acc[2], e.i, e.name)>>
          [] OTHER -> acc
  IN FoldLeft(step, <<EmptyF, EmptyF>>, evs)

(* per byte of the reassembled text: attribution of the covering chunk      *)
ByteAttrsOfStream(chunks) ==
  Concat([j \in 1..Len(chunks) |->
            [i \in 1..Len(chunks[j].x) |-> chunks[j].a]])

StreamText(chunks) == Concat([j \in 1..Len(chunks) |-> chunks[j].x])

(* per byte of text: what the map resolves its position to                  *)
ByteAttrsOfMap(map, text) ==
  LET segs == DecodeMappings(map.m)
      pt == PosTable(text)
  IN [i \in 1..Len(text) |-> ResolveCol(map, segs, pt[i][1], pt[i][2])]

ByteAttrsOfOptMap(optmap, text) ==
  IF optmap = <<>> THEN [i \in 1..Len(text) |-> Unmapped]
  ELSE ByteAttrsOfMap(optmap[1], text)

(* number of lines that carry at least one byte                             *)
NumLines(text) == Len(Lines(text))

(* per line: (mapped, file, line) of the line's first mapped segment        *)
LineAttrsOfMap(map, text) ==
  LET segs == DecodeMappings(map.m)
  IN [ln \in 1..NumLines(text) |-> LineOnly(ResolveLine(map, segs, ln))]

LineAttrsOfOptMap(optmap, text) ==
  IF optmap = <<>> THEN [ln \in 1..NumLines(text) |-> LineOnly(Unmapped)]
  ELSE LineAttrsOfMap(optmap[1], text)

(* per line: (mapped, file, line) of the first mapped chunk that starts on  *)
(* that line, lines taken from the true position of the chunk's first byte  *)
LineAttrsOfStream(chunks) ==
  LET text == StreamText(chunks)
      pt == PosTable(text)
      offs == FoldLeft(LAMBDA acc, c : <<Append(acc[1], acc[2]), acc[2] + Len(c.x)>>,
                       <<<<>>, 0>>, chunks)[1]
      lineOf(j) == pt[offs[j] + 1][1]
  IN [ln \in 1..NumLines(text) |->
        LET c == {j \in 1..Len(chunks) :
                    chunks[j].a.m /\ Len(chunks[j].x) > 0 /\ lineOf(j) = ln}
        IN IF c = {} THEN LineOnly(Unmapped) ELSE LineOnly(chunks[Min(c)].a)]


(* final-source streams carry no text: their chunk events are read as       *)
(* segments and resolved like a map                                         *)
ResolveEvents(chunks, line, col) ==
  LET c == {j \in 1..Len(chunks) : chunks[j].gl = line /\ chunks[j].gc <= col}
  IN IF c = {} THEN Unmapped
     ELSE LET best == Max({chunks[j].gc : j \in c})
          IN chunks[Max({j \in c : chunks[j].gc = best})].a

ByteAttrsOfEvents(chunks, text) ==
  LET pt == PosTable(text)
  IN [i \in 1..Len(text) |-> ResolveEvents(chunks, pt[i][1], pt[i][2])]

LineAttrsOfEvents(chunks, text) ==
  [ln \in 1..NumLines(text) |->
     LET c == {j \in 1..Len(chunks) : chunks[j].gl = ln /\ chunks[j].a.m}
     IN IF c = {} THEN LineOnly(Unmapped) ELSE LineOnly(chunks[Min(c)].a)]

NoNames(chunks) == \A j \in 1..Len(chunks) : ~chunks[j].a.hn

(* the parts of an attribution the properties compare                       *)
Core(a) == <<a.m, a.f, a.l, a.c, a.hn, a.n>>
Full(a) == <<a.m, a.f, a.hc, a.ct, a.l, a.c, a.hn, a.n>>

(* the decoded segments of a map with their tables applied: two maps with   *)
(* the same value here differ at most in the order of their tables and in   *)
(* unused entries (usable for any text, ASCII or not)                       *)
(* an unmapped segment that ends no mapping (none, or another unmapped one,  *)
(* before it on its line) attributes nothing: a map re-encoded from a       *)
(* stream has dropped it, the map a SourceMapSource was given may carry it  *)
EffectiveSegs(segs) ==
  LET step(acc, sg) ==
        LET prev == IF acc = <<>> THEN 0 ELSE Len(acc)
            closes == prev > 0 /\ acc[prev].gl = sg.gl /\ acc[prev].si >= 0
        IN IF sg.si < 0 /\ ~closes THEN acc ELSE Append(acc, sg)
  IN FoldLeft(step, <<>>, segs)

(* the same without dropping anything: every decoded segment by value        *)
SegValsOfOptMapRaw(optmap) ==
  IF optmap = <<>> THEN <<>>
  ELSE LET map == optmap[1]
           segs == DecodeMappings(map.m)
       IN [i \in 1..Len(segs) |-> <<segs[i].gl, segs[i].gc, Full(SegAttr(map, segs[i]))>>]

SegValsOfOptMap(optmap) ==
  IF optmap = <<>> THEN <<>>
  ELSE LET map == optmap[1]
           segs == EffectiveSegs(DecodeMappings(map.m))
       IN [i \in 1..Len(segs) |-> <<segs[i].gl, segs[i].gc, Full(SegAttr(map, segs[i]))>>]

SameCore(as, bs) ==
  Len(as) = Len(bs) /\ \A i \in 1..Len(as) : Core(as[i]) = Core(bs[i])
SameFull(as, bs) ==
  Len(as) = Len(bs) /\ \A i \in 1..Len(as) : Full(as[i]) = Full(bs[i])

AnyMapped(as) == \E i \in 1..Len(as) : as[i].m
AnyChunkMapped(chunks) == \E j \in 1..Len(chunks) : chunks[j].a.m
=============================================================================
