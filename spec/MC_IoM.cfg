CONSTANTS
  PieceLists <- Lists
  KeepGoing = FALSE
SPECIFICATION Spec
INVARIANTS PrefixOnly OkMeansAll NoCallAfterError ErrorIsReturned
PROPERTY Terminates
CHECK_DEADLOCK FALSE
