CONSTANT Deep = FALSE
CONSTANT AttrScope = "no"
SPECIFICATION Spec
INVARIANT DesignOK
CHECK_DEADLOCK FALSE
