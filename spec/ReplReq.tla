------------------------------- MODULE ReplReq -------------------------------
(***************************************************************************)
(* What property C06 requires of a ReplaceSource, over chunk streams read   *)
(* by value (Attr!StreamChunks: chunks [x, gl, gc, a]).  Used by the trace  *)
(* predicates (Preds) on recorded streams and by MC_ReplaceM on the         *)
(* implementation-shaped model.                                             *)
(***************************************************************************)
EXTENDS Naturals, Integers, Sequences, FiniteSets, SequencesExt, FiniteSetsExt,
        Functions, Text, Vlq, SMap, Sem, Attr

(* C06 for ReplaceSource, with the OBSERVED inner stream as the definition  *)
(* of "inner segment".  ic / oc range over chunks [x, gl, gc, a].           *)
ByteIndex(chunks) ==    \* per byte: <<chunk number, offset inside the chunk>>
  Concat([j \in 1..Len(chunks) |-> [i \in 1..Len(chunks[j].x) |-> <<j, i - 1>>]])

ContentMatches(ct, line, col, expected) ==
  LET ls == Lines(ct)
  IN /\ line >= 1 /\ line <= Len(ls)
     /\ col + Len(expected) <= Len(ls[line])
     /\ SubSeq(ls[line], col + 1, col + Len(expected)) = expected

(* the column an output piece may carry when it starts d bytes into ic      *)
ColOK(col, ic, d) ==
  LET col0 == ic.a.c
  IN IF d = 0 \/ ~ic.a.hc THEN col = col0
     ELSE IF ContentMatches(ic.a.ct, ic.a.l, col0, Take(ic.x, d)) THEN col = col0 + d
     ELSE col >= col0 /\ col <= col0 + d

ReplaceKeepsAttribution(innerChunks, outChunks, repls) ==
  LET innerText == StreamText(innerChunks)
      n == Len(innerText)
      prov == SpliceProv(n, repls)
      ii == ByteIndex(innerChunks)
      oi == ByteIndex(outChunks)
      byteOK(b) ==
        LET a == outChunks[oi[b][1]].a
            p == prov[b]
        IN IF p.k = "in" THEN
             LET ic == innerChunks[ii[p.j][1]]
                 d == ii[p.j][2]
                 p0 == prov[b - oi[b][2]]      \* first byte of the output chunk
                 dp == IF p0.k = "in" /\ ii[p0.j][1] = ii[p.j][1] THEN ii[p0.j][2] ELSE d
             IN /\ a.m = ic.a.m
                /\ a.m => /\ <<a.f, a.hc, a.ct, a.l, a.hn, a.n>>
                              = <<ic.a.f, ic.a.hc, ic.a.ct, ic.a.l, ic.a.hn, ic.a.n>>
                          /\ ColOK(a.c, ic, dp)
           ELSE
             IF p.at >= n THEN ~a.m
             ELSE
               LET ic == innerChunks[ii[p.at + 1][1]]
                   d == ii[p.at + 1][2]
                   r == repls[p.r]
                   firstLine == \A x \in 1..(p.i - 1) : r.c[x] # NL
                   expName == IF ~firstLine THEN <<FALSE, <<>>>>
                              ELSE IF r.n # <<>> THEN <<TRUE, r.n[1]>>
                              ELSE <<ic.a.hn, ic.a.n>>
               IN /\ a.m = ic.a.m
                  /\ a.m => /\ <<a.f, a.hc, a.ct, a.l>> = <<ic.a.f, ic.a.hc, ic.a.ct, ic.a.l>>
                            /\ ColOK(a.c, ic, d)
                            /\ <<a.hn, a.n>> = expName
  IN /\ Len(prov) = Len(StreamText(outChunks))
     /\ \A b \in 1..Len(prov) : byteOK(b)
=============================================================================
