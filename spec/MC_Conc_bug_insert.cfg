CONSTANTS
  Threads <- T2
  Programs <- Programs2x2
  ShardOf <- SameShard
  InsertOverwrites = TRUE
  MapSkipsHeldShard = FALSE
SPECIFICATION FairSpec
INVARIANTS NoMonitorFired CloneOK NoDeadlock
PROPERTIES WriteOnce Termination
VIEW ViewNoHist
CHECK_DEADLOCK FALSE
