------------------------------ MODULE MC_VlqW -------------------------------
(* Design check of the wide VLQ format (VlqW.tla):                          *)
(*  - on the range Vlq.tla covers, the wide spelling is Vlq!Digits;         *)
(*  - for every pair of mapped segments whose fields are taken from the     *)
(*    corners of the u32 range, reading the canonical spelling gives the    *)
(*    segments back (so the 33-bit arithmetic on halves is right);          *)
(*  - with Narrow = TRUE (the 32-bit shift of the crate before repair F21)  *)
(*    the same statement is refuted.                                        *)
EXTENDS VlqW, TLC

CONSTANT Narrow

Small == {d \in -70000..70000 : (d % 7 = 0) \/ (d > -1100 /\ d < 1100) \/ d \in {65535, 65536, 65537, -65535, -65536, -65537}}
     \cup {1073741823, -1073741823, 2147483647, -2147483647, 1048576, -1048575}

Abs32(d) == IF d < 0 THEN -d ELSE d
ASSUME SmallAgrees ==
  \A d \in Small : WDigits(d < 0, <<Abs32(d) \div H, Abs32(d) % H>>) = Digits(d)

VARIABLE p
Init == p \in WPairs \cup WTriples
Next == UNCHANGED p
Spec == Init /\ [][Next]_p

RoundTrip ==
  LET d == WDecode(WEncodeN(p, Narrow))
  IN d.ok /\ d.segs = p
=============================================================================
