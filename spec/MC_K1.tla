-------------------------------- MODULE MC_K1 --------------------------------
(***************************************************************************)
(* Known finding K1 at design level: a ReplaceSource over a CachedSource.   *)
(* Cold, the ReplaceSource (ReplaceM) receives the chunks of the wrapped    *)
(* source; warm, it receives what the CachedSource replays from its stored  *)
(* map (EncM, then SplitM): the encoder has merged adjacent chunks with the *)
(* same original location, so the replay is coarser.  TLC shows on every    *)
(* well-formed chunk stream of the scope and every replacement that         *)
(*   - the two answers have the same text, the same generated positions    *)
(*     and the same file / line / name at every output byte                *)
(*     (ColumnsOnly - holds), and                                          *)
(*   - they do NOT always have the same original column (SameAnswer -      *)
(*     refuted),                                                           *)
(* which is exactly the class the trace predicates downgrade to K1.         *)
(***************************************************************************)
EXTENDS ReplaceM, SplitM, ReplReq, TLC

cA == 97
cX == 120
FileA == <<97, 46, 106, 115>>
Texts == {<<cA, cA>>, <<cA, cA, cA>>, <<cA, cA, NL, cA>>, <<cA, NL, cA, cA>>}
MustCut(t) == {i \in 1..(Len(t) - 1) : t[i] = NL}
Cuts(t) == {C \in SUBSET (1..(Len(t) - 1)) : MustCut(t) \subseteq C}
(* every chunk mapped to its own position in a file whose content is the    *)
(* text (an OriginalSource-like stream), or unmapped                        *)
Streams(t) ==
  UNION {
    LET cutSeq == SetToSortSeq(C \cup {Len(t)}, <)
        n == Len(cutSeq)
        pt == PosTable(t)
        start(k) == IF k = 1 THEN 1 ELSE cutSeq[k - 1] + 1
    IN {[k \in 1..n |->
           Chunk(SubSeq(t, start(k), cutSeq[k]), pt[start(k)][1], pt[start(k)][2],
                 IF f[k] THEN [gl |-> 0, gc |-> 0, si |-> 0, ol |-> pt[start(k)][1],
                               oc |-> IF same THEN 0 ELSE pt[start(k)][2], ni |-> -1]
                 ELSE NoSeg)] : f \in [1..n -> BOOLEAN], same \in BOOLEAN}
    : C \in Cuts(t)}
Repl(s, e, c) == [s |-> s, e |-> e, c |-> c, n |-> <<>>, enf |-> 1, api |-> "replace"]
Repls(n) == {<<Repl(p[1], p[2], c)>> :
               p \in {q \in (0..n) \X (0..n) : q[1] <= q[2]}, c \in {<<>>, <<cX>>}}

ByValue(cs, t) ==
  [k \in 1..Len(cs) |->
     [x |-> cs[k].x, gl |-> cs[k].gl, gc |-> cs[k].gc,
      a |-> IF cs[k].s.si < 0 THEN Unmapped
            ELSE [m |-> TRUE, f |-> FileA, hc |-> TRUE, ct |-> t, l |-> cs[k].s.ol, c |-> cs[k].s.oc,
                  hn |-> FALSE, n |-> <<>>]]]

VARIABLES t, cs, repls
Init == /\ t \in Texts
        /\ cs \in Streams(t)
        /\ repls \in Repls(Len(t))
Next == UNCHANGED <<t, cs, repls>>
Spec == Init /\ [][Next]_<<t, cs, repls>>

Cold == ReplaceStream(ByValue(cs, t), EndPos(t), Sorted(repls)).chunks
Warm == ReplaceStream(ByValue(CachedReplay(cs), t), EndPos(t), Sorted(repls)).chunks
PerByte(chunks) == Concat([j \in 1..Len(chunks) |-> [i \in 1..Len(chunks[j].x) |-> chunks[j].a]])
NoCol(a) == <<a.m, a.f, a.l, a.hn, a.n>>

ColumnsOnly ==
  /\ OutText(Cold) = OutText(Warm)
  /\ OutPositionsTrue(Cold) /\ OutPositionsTrue(Warm)
  /\ LET pc == PerByte(Cold)
         pw == PerByte(Warm)
     IN \A i \in 1..Len(pc) : NoCol(pc[i]) = NoCol(pw[i])
SameAnswer ==
  LET pc == PerByte(Cold)
      pw == PerByte(Warm)
  IN \A i \in 1..Len(pc) : pc[i].m => pc[i].c = pw[i].c
=============================================================================
