--------------------------------- MODULE IoM ---------------------------------
(***************************************************************************)
(* The environment of to_writer: a std::io::Write implementation as a       *)
(* state machine, and the way the crate's sources feed it.                  *)
(*                                                                         *)
(* A writer answers each write(buf) call (buf non-empty) with               *)
(*    n > 0   it takes the first min(n, Len(buf)) bytes                     *)
(*    0       Ok(0): it takes nothing and says so (write_all turns this     *)
(*            into an error)                                                *)
(*   -1       a hard error                                                  *)
(*   -2       ErrorKind::Interrupted: nothing taken, the call is to be       *)
(*            repeated                                                      *)
(* as its script says; once the script is used up it takes everything.      *)
(* A source writes its text piece by piece, one write_all per piece (a      *)
(* ConcatSource: one per child), and stops at the first error: what the     *)
(* writer holds is then a prefix of buffer(), the error is returned, and    *)
(* the writer is not called again (property C07, last clause; C15 for       *)
(* SourceMap::to_writer).  KeepGoing = TRUE is the shape of seed C07-g (the *)
(* first error is remembered and returned, the remaining pieces are still   *)
(* written); TLC refutes PrefixOnly and NoCallAfterError for it.            *)
(*                                                                         *)
(* The scripts are also what Gen hands to the harness (scopes c07, c15):    *)
(* the real to_writer implementations are driven by every script up to      *)
(* length 3 and judged by the same statements (Preds, writer_script).       *)
(***************************************************************************)
EXTENDS Naturals, Integers, Sequences, SequencesExt, FiniteSets, IoScripts

CONSTANTS PieceLists,   \* set of sequences of byte strings
          KeepGoing

VARIABLES pieces, script, pi, off, written, hard, after, first, res
vars == <<pieces, script, pi, off, written, hard, after, first, res>>

RECURSIVE FlatOfPieces(_)
FlatOfPieces(ps) == IF ps = <<>> THEN <<>> ELSE Head(ps) \o FlatOfPieces(Tail(ps))

Init ==
  /\ pieces \in PieceLists /\ script \in ScriptsUpTo(3)
  /\ pi = 1 /\ off = 0 /\ written = <<>> /\ hard = 0 /\ after = 0 /\ first = FALSE /\ res = "run"

(* empty pieces are skipped without a call (write_all of nothing)           *)
Skip ==
  /\ res = "run" /\ pi <= Len(pieces) /\ off >= Len(pieces[pi])
  /\ pi' = pi + 1 /\ off' = 0
  /\ UNCHANGED <<pieces, script, written, hard, after, first, res>>

Finish ==
  /\ res = "run" /\ pi > Len(pieces)
  /\ res' = IF first THEN "err" ELSE "ok"
  /\ UNCHANGED <<pieces, script, pi, off, written, hard, after, first>>

Call ==
  /\ res = "run" /\ pi <= Len(pieces) /\ off < Len(pieces[pi])
  /\ LET buf == SubSeq(pieces[pi], off + 1, Len(pieces[pi]))
         a == IF script = <<>> THEN Len(buf) ELSE Head(script)
     IN /\ script' = IF script = <<>> THEN <<>> ELSE Tail(script)
        /\ after' = IF hard > 0 THEN after + 1 ELSE after
        /\ IF a > 0
             THEN LET n == IF a < Len(buf) THEN a ELSE Len(buf)
                  IN /\ written' = written \o SubSeq(buf, 1, n) /\ off' = off + n
                     /\ UNCHANGED <<pi, hard, first, res>>
           ELSE IF a = -2
             THEN UNCHANGED <<written, off, pi, hard, first, res>>      \* retried
           ELSE \* Ok(0) or a hard error: write_all of this piece fails
                /\ hard' = hard + 1 /\ UNCHANGED written
                /\ IF KeepGoing
                     THEN first' = TRUE /\ pi' = pi + 1 /\ off' = 0 /\ UNCHANGED res
                     ELSE res' = "err" /\ UNCHANGED <<pi, off, first>>
  /\ UNCHANGED pieces

Next == Skip \/ Finish \/ Call
Spec == Init /\ [][Next]_vars /\ WF_vars(Next)

PrefixOnly == IsPrefix(written, FlatOfPieces(pieces))
OkMeansAll == res = "ok" => written = FlatOfPieces(pieces)
NoCallAfterError == after = 0
ErrorIsReturned == (res # "run") => (res = "err" <=> hard > 0)
Terminates == <>(res # "run")
=============================================================================
